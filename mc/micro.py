"""Micro-case batching with bisection (performance device only).

A micro-case is one source line whose emitted bytes (or whose rejection) is predicted by a reference model:
    {'pre': [setup lines], 'line': '<statement>', 'want': '<hex>' | ['<hex>', ...] | 'ERR', ...free keys...}
Up to a few hundred micro-cases with the same 'pre' are packed into one source, each behind its own ORG so its
bytes form their own record at a known address.  Any global surprise (signal, unexpected error) splits the batch
recursively down to single-line programs, so every verdict is attributed to exactly one micro-case.
"""
import re
from . import core
from .fmt import pfile

SLOT = 64


def _asm(pre, lines, opts, variant='plain'):
    core.fresh()
    core.put('a.asm', '\n'.join(list(pre) + lines) + '\n')
    o = core.run('asl', ['-q'] + list(opts) + ['a.asm'], variant=variant, timeout=60, maxout=8 << 20)
    return o, core.get('a.p')


def run_ok(pre, items, opts, org, sigf, unit=1, fixed=0, slot=SLOT):
    """items expected to assemble. Returns list of (item, R)."""
    out = []
    lines = []
    for k, it in enumerate(items):
        if not fixed and 'at' not in it:
            lines.append('\t%s' % org(k * slot))
        lines.append(it['line'])
    o, p = _asm(pre, lines, opts)
    ck = core.crashkind(o)
    if ck or o.rc != 0 or p is None:
        if len(items) == 1:
            it = items[0]
            if ck:
                return [(it, core.R(False, ck, 'crash/%s/%s' % (ck, sigf(it)), '%s on: %s' % (ck, it['line'].strip())))]
            msg = (o.out + o.err).decode('latin-1')
            m = re.search(r'(error|fatal)[^:]*: *(.*)', msg)
            return [(it, core.R(False, 'rejected', 'rejected/%s' % sigf(it), 'valid statement rejected (%s): %s  [setup: %s]' % (m.group(2)[:60] if m else 'rc=%s' % o.rc, it['line'].strip(), '; '.join(l.strip() for l in pre[1:]))))]
        h = len(items) // 2
        return run_ok(pre, items[:h], opts, org, sigf, unit, fixed, slot) + run_ok(pre, items[h:], opts, org, sigf, unit, fixed, slot)
    recs = {}
    for r in pfile.data_records(pfile.read(p)):
        recs.setdefault(r.start, b'')
        recs[r.start] += r.data
    if fixed:
        # every item emits exactly `fixed` bytes, laid down back to back (used where ORG arguments would be
        # re-interpreted by the setup under test, e.g. RADIX)
        allb = b''.join(recs[a] for a in sorted(recs))
        if len(allb) != fixed * len(items):
            if len(items) == 1:
                it = items[0]
                return [(it, core.R(False, 'value', 'value/%s' % sigf(it), '%s  emits %d bytes (%s), model %s' % (it['line'].strip(), len(allb), allb.hex(), it['want'])))]
            h = len(items) // 2
            return run_ok(pre, items[:h], opts, org, sigf, unit, fixed, slot) + run_ok(pre, items[h:], opts, org, sigf, unit, fixed, slot)
        recs = {k * slot // unit: allb[k * fixed:(k + 1) * fixed] for k in range(len(items))}
    for k, it in enumerate(items):
        got = recs.get(it['at'] if 'at' in it else k * slot // unit)
        gh = got.hex() if got is not None else None
        want = it['want'] if isinstance(it['want'], list) else [it['want']]
        if gh is None and '' in want:
            out.append((it, core.R(True, 'match', states=[sigf(it)])))
        elif gh in want:
            out.append((it, core.R(True, 'match', states=[sigf(it)])))
        else:
            out.append((it, core.R(False, 'value', 'value/%s' % sigf(it), '%s  gives %s, model %s  [setup: %s]' % (it['line'].strip(), gh, '|'.join(want), '; '.join(l.strip() for l in pre[1:])))))
    return out


def run_err(pre, items, opts, sigf):
    """items that must each be rejected with an error naming their line."""
    lines = [it['line'] for it in items]
    o, p = _asm(pre, lines, opts)
    ck = core.crashkind(o)
    if ck:
        if len(items) == 1:
            it = items[0]
            return [(it, core.R(False, ck, 'crash/%s/%s' % (ck, sigf(it)), '%s on: %s' % (ck, it['line'].strip())))]
        h = len(items) // 2
        return run_err(pre, items[:h], opts, sigf) + run_err(pre, items[h:], opts, sigf)
    msg = (o.out + o.err).decode('latin-1')
    named = set(int(m.group(1)) for m in re.finditer(r'a\.asm\((\d+)\)[^\n]*(?:error|fatal)', msg))
    out = []
    lineno = len(pre)
    for k, it in enumerate(items):
        nl = it['line'].count('\n') + 1
        mine = set(range(lineno + 1, lineno + nl + 1))     # an item may span several lines (own ORG)
        lineno += nl
        if (mine & named) and p is None and o.rc in (2, 3):
            out.append((it, core.R(True, 'rejected-as-documented', states=[sigf(it)])))
        elif mine & named:
            out.append((it, core.R(False, 'err-status', 'err-status/%s' % sigf(it), 'error reported but rc=%s / code file exists=%s: %s' % (o.rc, p is not None, it['line'].strip()))))
        elif len(items) > 1:
            # errors that are only detected in a later pass are cut off by the pass-1 errors of the neighbours: judge alone
            out.append(run_err(pre, [it], opts, sigf)[0])
        else:
            out.append((it, core.R(False, 'err-missing', 'accepted/%s' % sigf(it), 'no error reported for: %s  [setup: %s]' % (it['line'].strip(), '; '.join(l.strip() for l in pre[1:])))))
    return out


def evaluate_batch(case, org, sigf, unit=1):
    fixed = case.get('fixed', 0)
    slot = case.get('slot', SLOT)
    """case = {'k':'batch', 'pre':[...], 'opts':[...], 'items':[...]}  or a single item with its own pre/opts ('k':'one')"""
    if case['k'] == 'one':
        it = case
        if it['want'] == 'ERR':
            return run_err(it['pre'], [it], it.get('opts', []), sigf)[0][1]
        return run_ok(it['pre'], [it], it.get('opts', []), org, sigf, unit, fixed, slot)[0][1]
    pre, opts = case['pre'], case.get('opts', [])
    items = []
    for it in case['items']:
        it = dict(it)
        it['k'] = 'one'
        it['pre'] = pre
        it['opts'] = opts
        if fixed:
            it['fixed'] = fixed
        if slot != SLOT:
            it['slot'] = slot
        items.append(it)
    ok = [it for it in items if it['want'] != 'ERR']
    er = [it for it in items if it['want'] == 'ERR']
    res = []
    if ok:
        res += run_ok(pre, ok, opts, org, sigf, unit, fixed, slot)
    if er:
        res += run_err(pre, er, opts, sigf)
    return res


def batches(pre, opts, items, size=300, fixed=0, slot=None):
    items = list(items)
    for i in range(0, len(items), size):
        b = {'k': 'batch', 'pre': pre, 'opts': opts, 'items': items[i:i + size]}
        if fixed:
            b['fixed'] = fixed
        if slot:
            b['slot'] = slot
        yield b
