import itertools, os, subprocess, sys, tempfile, shutil, collections
from multiprocessing import Pool
ASL='/repo/_build/asl'
base=tempfile.mkdtemp(dir='/dev/shm')
def run(bs):
    d=os.path.join(base,str(os.getpid())); os.makedirs(d,exist_ok=True)
    open(d+'/a.asm','wb').write(bytes(bs))
    try:
        r=subprocess.run([ASL,'-q','a.asm'],cwd=d,stdout=subprocess.DEVNULL,stderr=subprocess.DEVNULL,stdin=subprocess.DEVNULL,env={'LC_ALL':'C'},timeout=5)
    except subprocess.TimeoutExpired: return bs,'HANG'
    return bs,('SIGNAL %d'%r.returncode if r.returncode<0 else 'rc%d'%r.returncode)
if __name__=='__main__':
    jobs=[()]+[(a,) for a in range(256)]+[(a,b) for a in range(256) for b in range(256)]
    print(len(jobs))
    with Pool(16) as p: rs=p.map(run,jobs,chunksize=200)
    c=collections.Counter(r for _,r in rs); print(c)
    sh=0
    for b,r in rs:
        if not r.startswith('rc') and sh<10: sh+=1; print(bytes(b),r)
    shutil.rmtree(base)
