"""C09 - data-definition statements lay down exactly the documented bytes.

Reference: two's complement in the target's byte order for integers (with the signed..unsigned acceptance range
of the field), the exact Fraction-based IEEE-754 RNE encoder for floats (applied to the double nearest the literal),
the active CHARSET for strings, recursive expansion for DUP / [n], and the PADDING rule.  Micro-cases are batched;
layout cases (reservations, padding, address advance) are single programs whose whole byte map is compared.
"""
import itertools, math, struct, re
from fractions import Fraction
from .. import core, micro
from ..fmt import ieee, pfile

ID = 'C09'
LEVEL = 'model_checking'
VARIANTS = ['plain']
CHUNK = 1
ENGINE = 'product-enumerator'
TECHNIQUE = 'exhaustive products of statement kinds x boundary arguments (all half-precision values) executed on the real assembler against exact reference encoders'
LEVEL_TEXT = ('Every data statement kind of 8 targets x every boundary integer of its field (both just-out-of-range values must be rejected), '
              'strings with escapes and CHARSET remaps, DUP/[n] nestings, every finite half-precision value with its neighbours\' midpoints and '
              'midpoint +-1 double-ulp (quick: subnormal, first and last binade), single/double/extended boundary values for every exponent '
              '(thorough), and every reservation/padding layout (odd/even start x sizes x 0..3 arguments) are assembled; emitted bytes and '
              'addresses are compared with exact reference encoders.'
              ' DATA with every product of <= 3 string/integer arguments on two targets that pack two characters per word, and every reservation tree (? with nested DUP, aligned and unaligned) of elements smaller than the address unit (DB in the AVR code segment, DN) are compared as well.'
              ' Sized reservations (23 target/statement pairs x positive and negative sizes), AVR DATA with strings and integers mixed, character constants of 1..9 characters per field width, float literals beyond the double range and TI WORD/LONG are enumerated. Motorola repeat factors (negative ones must be rejected), strings containing NUL characters and register symbols as data arguments (must be reported, never dropped) are enumerated too.')
LEVEL_NOTE = ('Trusted: Fraction-based IEEE encoder (self-tested against struct), Python int.to_bytes, the manual\'s PADDING/DUP/CHARSET rules. '
              'Not covered: VAX/IBM/TI float formats, packed decimal, NUL characters in strings.')
RULE = 'one micro-case per statement; non-trivial = all'
BOUNDS = {'quick': 'half precision: 3 binades x 4 variants x 2 targets', 'thorough': 'half precision complete; single/double/extended every exponent'}
ASSUMPTIONS = ['a decimal literal denotes the double nearest to it (manual: the C version computes in 64-bit floats)']

# kind: (cpu, mnemonic, bits, endian, extra setup)
INTK = [
    ('8086', 'db', 8, 'little'), ('8086', 'dw', 16, 'little'), ('8086', 'dd', 32, 'little'),
    ('68000', 'dc.b', 8, 'big'), ('68000', 'dc.w', 16, 'big'), ('68000', 'dc.l', 32, 'big'),
    ('6502', 'byt', 8, 'little'), ('6502', 'adr', 16, 'little'),
    ('6800', 'fcb', 8, 'big'), ('6800', 'fdb', 16, 'big'),
    ('z80', 'db', 8, 'little'), ('z80', 'dw', 16, 'little'), ('z80', 'dd', 32, 'little'),
    ('msp430', 'byte', 8, 'little'), ('msp430', 'word', 16, 'little'),
    ('8051', 'db', 8, 'big'),
    ('320c25', 'word', 16, 'little'), ('320c25', 'long', 32, 'little'),      # TI WORD / LONG: 16-bit words, a LONG low word first
]


def pre_of(cpu):
    p = ['\tcpu ' + cpu]
    if cpu in ('68000', 'msp430'):
        p.append('\tpadding off')
    return p


def num(v):
    return str(v) if v >= 0 else '-%d' % (-v)


def int_items():
    groups = {}
    for cpu, mn, w, en in INTK:
        its = groups.setdefault(cpu, [])
        vals = sorted(set([-(1 << (w - 1)) - 1, -(1 << (w - 1)), -1, 0, 1, (1 << (w - 1)) - 1, 1 << (w - 1), (1 << w) - 1, 1 << w, 2, 100 % (1 << w)]))
        for v in vals:
            ok = -(1 << (w - 1)) <= v <= (1 << w) - 1
            enc = (v % (1 << w)).to_bytes(w // 8, en).hex() if ok else 'ERR'
            its.append({'line': '\t%s %s' % (mn, num(v)), 'want': enc, 'sig': '%s/%s/int' % (cpu, mn)})
            # as second and third argument of a list: position must not change the encoding or the range check
            one = (1).to_bytes(w // 8, en).hex()
            its.append({'line': '\t%s 1,%s,1' % (mn, num(v)), 'want': (one + enc + one) if ok else 'ERR', 'sig': '%s/%s/int-list' % (cpu, mn)})
    # 64-bit fields
    groups['8086'] += [{'line': '\tdq %s' % num(v), 'want': (v % (1 << 64)).to_bytes(8, 'little').hex(), 'sig': '8086/dq/int'} for v in (0, 1, -1, 2 ** 63 - 1, 2 ** 32)]
    groups['68000'] += [{'line': '\tdc.q %s' % num(v), 'want': (v % (1 << 64)).to_bytes(8, 'big').hex(), 'sig': '68000/dc.q/int'} for v in (0, 1, -1, 2 ** 63 - 1, 2 ** 32)]
    # PIC / AVR word data
    groups['16c84'] = [{'line': '\tdata %d' % v, 'want': (v.to_bytes(2, 'little').hex() if v <= 0x3fff else 'ERR'), 'sig': '16c84/data/int'} for v in (0, 1, 0x3ffe, 0x3fff, 0x4000, 0xffff, 0x10000)]
    groups['at90s8515'] = [{'line': '\tdata %s' % num(v), 'want': ((v % 65536).to_bytes(2, 'little').hex() if -32768 <= v <= 65535 else 'ERR'), 'sig': 'avr/data/int'} for v in (0, 1, -1, -32768, -32769, 65535, 65536)]
    return groups


def str_items():
    groups = {}
    strs = [('abc', b'abc'), ('a', b'a'), ('ab', b'ab'), ('\\x41\\x42', b'AB'), ('a\\"b', b'a"b'), ('a\\\\b', b'a\\b'), ('\\65\\66\\67', b'ABC'), ('a\\nb', b'a\nb'),
            ('a\\tb', b'a\tb'), ('x;y', b'x;y'), ('x,y', b'x,y'), ("it's", b"it's"),
            ('ab\\0cd', b'ab\0cd'), ('a\\x00', b'a\0'), ('\\0b', b'\0b')]      # a NUL character is a character like any other
    for cpu, mn, w, en in INTK:
        its = groups.setdefault(cpu, [])
        for txt, raw in strs:
            if cpu == 'msp430' and w != 8:
                continue    # MSP430 WORD takes a string as one multi-character constant
            if w == 8:
                want = raw.hex()
            else:
                want = b''.join(bytes([c]).rjust(w // 8, b'\0') if en == 'big' else bytes([c]).ljust(w // 8, b'\0') for c in raw).hex()
            its.append({'line': '\t%s "%s"' % (mn, txt), 'want': want, 'sig': '%s/%s/string' % (cpu, mn)})
            if w == 8:
                its.append({'line': '\t%s 1,"%s",2' % (mn, txt), 'want': '01' + want + '02', 'sig': '%s/%s/string-list' % (cpu, mn)})
    groups['6800'] += [{'line': '\tfcc "%s"' % t, 'want': r.hex(), 'sig': '6800/fcc'} for t, r in strs]
    return groups


REGARGS = [('68000', 'dc.w d0'), ('68000', 'dc.b d1'), ('68000', 'dc.l 1,sp,2'), ('68000', 'dc.w a1'), ('h8/300', 'dc.b r0h'), ('h8/300', 'dc.w r1'), ('sh7000', 'dc.w r1'),
           ('sh7000', 'dc.l r1'), ('msp430', 'byte r4'), ('msp430', 'word r5'), ('msp430', 'byte 1,r4,2'), ('atmega8', 'data r16'), ('80c166', 'dw r1'), ('80c166', 'db rl1'),
           ('z8001', 'dw r1'), ('z8001', 'db rl1'), ('z8001', 'dd r1'), ('z8001', 'dq r1'), ('z8001', 'dw 1,r1,2')]


def reg_items():
    """a register (symbol) is no value: a data statement that is given one must say so, not drop the argument or the statement"""
    groups = {}
    for cpu, st in REGARGS:
        groups.setdefault(cpu, []).append({'line': '\t' + st, 'want': 'ERR', 'sig': '%s/%s/register-argument' % (cpu, st.split()[0])})
    return groups


def charset_batches():
    # (pre, items): CHARSET remaps applied to strings and character constants only, never to integers
    maps = [
        (["\tcharset 'a','c','A'"], {ord('a'): ord('A'), ord('b'): ord('B'), ord('c'): ord('C')}),
        (["\tcharset 'a',1"], {ord('a'): 1}),
        (["\tcharset 'a','c','A'", '\tcharset'], {}),
        (["\tcharset 'z',\"ABC\""], {ord('z'): ord('A'), ord('z') + 1: ord('B'), ord('z') + 2: ord('C')}),
    ]
    for cpu, mn in (('8086', 'db'), ('68000', 'dc.b'), ('6502', 'byt')):
        for su, mp in maps:
            its = []
            for s in ('abcd', 'a', 'zz{', 'xyz'):
                its.append({'line': '\t%s "%s"' % (mn, s), 'want': bytes(mp.get(c, c) for c in s.encode()).hex(), 'sig': '%s/charset/string' % cpu})
            its.append({'line': "\t%s 'a'" % mn, 'want': bytes([mp.get(ord('a'), ord('a'))]).hex(), 'sig': '%s/charset/char' % cpu})
            its.append({'line': '\t%s 97' % mn, 'want': '61', 'sig': '%s/charset/int-unaffected' % cpu})
            yield pre_of(cpu) + su, its
    # strings in fields wider than a byte: one field per character, the (translated) character code zero-extended
    for cpu, mn, w, end in (('8086', 'dw', 2, 'little'), ('8086', 'dd', 4, 'little'), ('8086', 'dq', 8, 'little'), ('6809', 'fdb', 2, 'big'), ('6809', 'adr', 2, 'big'), ('z80', 'dw', 2, 'little')):
        for su, mp in maps + [(["\tcharset 'a',225"], {ord('a'): 225}), (["\tcharset 'a','b',128"], {ord('a'): 128, ord('b'): 129})]:
            its = []
            for st in ('abcd', 'a', 'ba'):
                if len(st) <= w and len(st) > 1 and cpu != '6809':
                    continue        # (a short string in a wide Intel field is ONE multi-character constant)
                its.append({'line': '\t%s "%s"' % (mn, st), 'want': b''.join(mp.get(c, c).to_bytes(w, end) for c in st.encode()).hex(), 'sig': '%s/%s/charset/string-in-wide-field' % (cpu, mn)})
            yield pre_of(cpu) + su, its


def dup_items():
    its = []

    def ex(t):
        if isinstance(t, int):
            return [t]
        n, lst = t
        out = []
        for _ in range(n):
            for x in lst:
                out += ex(x)
        return out

    def rd(t):
        if isinstance(t, int):
            return str(t)
        return '%d dup (%s)' % (t[0], ','.join(rd(x) for x in t[1]))
    trees = []
    for n in (1, 2, 3, 5):
        trees += [(n, [7]), (n, [1, 2]), (n, [1, (2, [3])]), (n, [(2, [4, 5]), 6]), (n, [(n, [(2, [9])])])]
    for t in trees:
        b = ex(t)
        its.append({'line': '\tdb %s' % rd(t), 'want': bytes(b).hex(), 'sig': '8086/db/dup'})
        its.append({'line': '\tdb 1,%s,2' % rd(t), 'want': bytes([1] + b + [2]).hex(), 'sig': '8086/db/dup-in-list'})
        its.append({'line': '\tdw %s' % rd(t), 'want': b''.join(x.to_bytes(2, 'little') for x in b).hex(), 'sig': '8086/dw/dup'})
    its.append({'line': '\tdb 2 dup ("ab")', 'want': b'abab'.hex(), 'sig': '8086/db/dup-string'})
    its.append({'line': '\tdb 2 dup (300)', 'want': 'ERR', 'sig': '8086/db/dup-range'})
    its.append({'line': '\tdb 2 dup (?), 4', 'want': 'ERR', 'sig': '8086/db/mixed-placeholder'})
    m = []
    for n in (1, 2, 3, 5):
        m.append({'line': '\tdc.b [%d]7' % n, 'want': bytes([7] * n).hex(), 'sig': '68000/dc.b/rep'})
        m.append({'line': '\tdc.b 1,[%d]7,2' % n, 'want': bytes([1] + [7] * n + [2]).hex(), 'sig': '68000/dc.b/rep-in-list'})
        m.append({'line': '\tdc.w [%d]$1234,5' % n, 'want': (b'\x12\x34' * n + b'\0\5').hex(), 'sig': '68000/dc.w/rep'})
        m.append({'line': '\tdc.b [%d]"ab"' % n, 'want': (b'ab' * n).hex(), 'sig': '68000/dc.b/rep-string'})
    return {'8086': its, '68000': m}


# ---- floats --------------------------------------------------------------------------------------

def flit(fr):
    s = ieee.dec(fr, 1100)
    return s if not s.startswith('-') else '-' + s[1:]


def half_items(tier):
    if tier == 'quick':
        pats = list(range(0, 0x800)) + list(range(0x7800, 0x7c00)) + list(range(0x3bf0, 0x3c10))
    else:
        pats = list(range(0, 0x7c00))
    vals = []
    for p in pats:
        v = ieee.half_val(p)
        vals.append(v)
        if p + 1 <= 0x7c00:
            nxt = ieee.half_val(p + 1) if p + 1 < 0x7c00 else Fraction(65536)
            mid = (v + nxt) / 2
            vals.append(mid)
            mf = float(mid)
            vals.append(Fraction(math.nextafter(mf, math.inf)))
            vals.append(Fraction(math.nextafter(mf, -math.inf)))
    out = {'68000': [], '8086': []}
    for fr in vals:
        for sgn in ((1, -1) if tier != 'quick' else (1,)):
            x = float(fr) * sgn
            if sgn < 0 and fr == 0:
                continue    # the sign of a zero written as -0.0 is not pinned down by the manual
            if 65504.0 < abs(x) < 65520.0:
                continue    # above the largest finite value but below the overflow midpoint: "does not fit" is debatable
            pat = ieee.half(x)
            lit = flit(fr * sgn)
            mag = None if pat is None else pat & 0x7fff
            sig = 'half/subnormal-range' if (mag is not None and mag <= 0x400) else 'half/normal-range' if pat is not None else 'half/overflow'
            out['68000'].append({'line': '\tdc.c %s' % lit, 'want': 'ERR' if pat is None else pat.to_bytes(2, 'big').hex(), 'sig': '68000/dc.c/' + sig})
            out['8086'].append({'line': '\tdw %s' % lit, 'want': 'ERR' if pat is None else pat.to_bytes(2, 'little').hex(), 'sig': '8086/dw/' + sig})
    return out


def wide_float_items(tier):
    out = {'68000': [], '8086': [], '320c25': []}
    xs = [0.0, 1e39, -1e39, 1e200, 1.0, -1.0, 1.5, -2.5, 0.1, 1e10, 1e-10, 3.141592653589793, 65504.0, 1e38, 3.4028234663852886e38, 1.1754943508222875e-38, 1e-40, 1.401298464324817e-45,
          7e-46, 1e308, 2.2250738585072014e-308, 5e-324, 1e-320]
    if tier != 'quick':
        for e in range(-149, 128):
            for m in (0, 1, (1 << 23) - 1):
                base = Fraction(2) ** e if e >= -126 else None
                if e >= -126:
                    v = (Fraction(1) + Fraction(m, 1 << 23)) * Fraction(2) ** e
                else:
                    v = Fraction(2) ** e
                nxt = v + Fraction(2) ** (max(e, -126) - 23)
                mid = (v + nxt) / 2
                for fr in (v, mid):
                    x = float(fr)
                    xs += [x, math.nextafter(x, math.inf), math.nextafter(x, -math.inf)]
        for e in range(-1074, 1024, 7):
            xs.append(math.ldexp(1.0, e))
            xs.append(math.ldexp(1.9999999999999998, e) if e > -1074 else 5e-324)
    seen = set()
    for x in xs:
        if x in seen or math.isinf(x) or math.isnan(x):
            continue
        seen.add(x)
        lit = flit(Fraction(x))
        s, d, e = ieee.single(x), ieee.double(x), ieee.ext80(x)
        fmax = 3.4028234663852886e38
        if not (fmax < abs(x) < 3.4028235677973366e38):
            out['68000'].append({'line': '\tdc.s %s' % lit, 'want': 'ERR' if s is None else s.to_bytes(4, 'big').hex(), 'sig': '68000/dc.s'})
            out['8086'].append({'line': '\tdd %s' % lit, 'want': 'ERR' if s is None else s.to_bytes(4, 'little').hex(), 'sig': '8086/dd/float'})
            # TI FLOAT: IEEE single as two 16-bit words, low word first
            out['320c25'].append({'line': '\tfloat %s' % lit, 'want': 'ERR' if s is None else s.to_bytes(4, 'little').hex(), 'sig': '320c25/float'})
        out['68000'].append({'line': '\tdc.d %s' % lit, 'want': d.to_bytes(8, 'big').hex(), 'sig': '68000/dc.d'})
        out['8086'].append({'line': '\tdq %s' % lit, 'want': d.to_bytes(8, 'little').hex(), 'sig': '8086/dq/float'})
        # extended: 80-bit little endian on x86; 96-bit (sign+exponent, 16 zero bits, 64-bit mantissa) big endian on 68k
        if True:
            tiny = '/zero-or-denormal-double-input' if abs(x) < 2.2250738585072014e-308 else ''
            out['8086'].append({'line': '\tdt %s' % lit, 'want': e.to_bytes(10, 'little').hex(), 'sig': '8086/dt/float' + tiny})
            eb = e.to_bytes(10, 'big')
            out['68000'].append({'line': '\tdc.x %s' % lit, 'want': (eb[:2] + b'\0\0' + eb[2:]).hex(), 'sig': '68000/dc.x' + tiny})
    return out


# ---- layout cases: reservation, padding, address advance ------------------------------------------

def layout_cases():
    # 68000 with PADDING on (default) and off; MSP430 likewise
    for cpu, B, W, L, RB, RW in (('68000', 'dc.b', 'dc.w', 'dc.l', 'ds.b', 'ds.w'), ('msp430', 'byte', 'word', None, 'bss', None)):
        for padding in (1, 0):
            for start in (0x100, 0x101):
                stmts = []
                for n in (1, 2, 3):
                    stmts.append(('B', n))
                    stmts.append(('W', n))
                    if cpu == '68000':
                        stmts.append(('L', n))
                        stmts.append(('WQ', n))   # dc.w with n '?' arguments
                        stmts.append(('WQ2', n))  # dc.w [n]?,[2]?
                        stmts.append(('RW', n))
                    stmts.append(('RB', n))
                if cpu == '68000':
                    stmts += [('RW0', 0), ('RL0', 0)]       # DS.x 0: no reservation, the address is brought to a multiple of the operand size
                for st in stmts:
                    for follow in ('B', 'W'):
                        yield {'k': 'layout', 'cpu': cpu, 'padding': padding, 'start': start, 'stmt': list(st), 'follow': follow}
    for n in (0, 1, 2, 3):
        for kw in ('db', 'dw', 'dd'):
            yield {'k': 'layout', 'cpu': '8086', 'padding': 0, 'start': 0x100, 'stmt': ['DUPQ', n, kw], 'follow': 'B'}
            yield {'k': 'layout', 'cpu': '8086', 'padding': 0, 'start': 0x100, 'stmt': ['Q', n, kw], 'follow': 'B'}
    for n in (0, 1, 2, 3):
        yield {'k': 'layout', 'cpu': '6800', 'padding': 0, 'start': 0x100, 'stmt': ['RMB', n], 'follow': 'B'}
        yield {'k': 'layout', 'cpu': '8086', 'padding': 0, 'start': 0x100, 'stmt': ['DS', n], 'follow': 'B'}


def ev_layout(case):
    cpu, pad, start = case['cpu'], case['padding'], case['start']
    st = case['stmt']
    big = cpu in ('68000', '6800')
    names = {'68000': ('dc.b', 'dc.w', 'dc.l'), 'msp430': ('byte', 'word', None), '8086': ('db', 'dw', 'dd'), '6800': ('fcb', 'fdb', None)}[cpu]
    lines = ['\tcpu ' + cpu]
    if cpu in ('68000', 'msp430'):
        lines.append('\tpadding %s' % ('on' if pad else 'off'))
    lines.append('\torg %d' % start)
    mem = {}
    pc = start

    def align():
        nonlocal pc
        if pad and pc & 1:
            pc += 1     # the pad byte is reserved or emitted as 0; both satisfy "padding exactly where prescribed"

    def emit(bs):
        nonlocal pc
        for b in bs:
            mem[pc] = b
            pc += 1
    k = st[0]
    n = st[1]
    if k == 'B':
        lines.append('\t%s %s' % (names[0], ','.join(str(10 + i) for i in range(n))))
        emit([10 + i for i in range(n)])
    elif k == 'W':
        align()
        lines.append('\t%s %s' % (names[1], ','.join(str(0x1100 + i) for i in range(n))))
        for i in range(n):
            emit((0x1100 + i).to_bytes(2, 'big' if big else 'little'))
    elif k == 'L':
        align()
        lines.append('\t%s %s' % (names[2], ','.join(str(0x11223300 + i) for i in range(n))))
        for i in range(n):
            emit((0x11223300 + i).to_bytes(4, 'big'))
    elif k == 'WQ':
        align()
        lines.append('\tdc.w %s' % ','.join('?' for i in range(n)))
        pc += 2 * n
    elif k == 'WQ2':
        align()
        lines.append('\tdc.w [%d]?,[2]?' % n)
        pc += 2 * n + 4
    elif k == 'RW':
        align()
        lines.append('\tds.w %d' % n)
        pc += 2 * n
    elif k in ('RW0', 'RL0'):
        w = 2 if k == 'RW0' else 4
        lines.append('\tds.%s 0' % ('w' if w == 2 else 'l'))
        pc = (pc + w - 1) // w * w
    elif k == 'RB':
        lines.append('\t%s %d' % ('ds.b' if cpu == '68000' else 'bss', n))
        pc += n
    elif k == 'DUPQ':
        w = {'db': 1, 'dw': 2, 'dd': 4}[st[2]]
        if n == 0:
            return core.R(True, 'skip', nontrivial=False, transitions=0)
        lines.append('\t%s %d dup (?)' % (st[2], n))
        pc += w * n
    elif k == 'Q':
        w = {'db': 1, 'dw': 2, 'dd': 4}[st[2]]
        if n == 0:
            return core.R(True, 'skip', nontrivial=False, transitions=0)
        lines.append('\t%s %s' % (st[2], ','.join('?' for _ in range(n))))
        pc += w * n
    elif k == 'RMB':
        lines.append('\trmb %d' % n)
        pc += n
    elif k == 'DS':
        lines.append('\tds %d' % n)
        pc += n
    # following statement + label: the label must read the address of the data that follows (after padding)
    if case['follow'] == 'W':
        align()
        lines.append('lab:\t%s 43981' % names[1])
        lab = pc
        emit((43981).to_bytes(2, 'big' if big else 'little'))
    else:
        lines.append('lab:\t%s 238' % names[0])
        lab = pc
        emit([238])
    lines.append('\torg 4096')
    lines.append('\t%s lab' % names[1])
    core.fresh()
    core.put('a.asm', '\n'.join(lines) + '\n')
    o = core.run('asl', ['-q', 'a.asm'])
    d = ' / '.join(l.strip() for l in lines)
    ck = core.crashkind(o)
    if ck:
        return core.R(False, ck, 'crash/layout/' + ck, '%s on %s' % (ck, d))
    p = core.get('a.p')
    if o.rc != 0 or p is None:
        return core.R(False, 'rejected', 'layout/rejected/%s/%s' % (cpu, k), 'rc=%s %s on %s' % (o.rc, (o.out + o.err)[-150:].decode('latin-1'), d))
    got = {}
    for r in pfile.data_records(pfile.read(p)):
        for i, b in enumerate(r.data):
            got[r.start + i] = b
    tab = bytes(got.pop(4096 + i, 0) for i in range(2))
    labv = int.from_bytes(tab, 'big' if big else 'little')
    # pad bytes may be emitted as 0 or merely reserved
    extra = {a: b for a, b in got.items() if a not in mem}
    if any(b != 0 for b in extra.values()) or any(got.get(a) != b for a, b in mem.items()) or len(extra) > 2:
        return core.R(False, 'layout-bytes', 'layout/bytes/%s/%s/pad%d/start%d' % (cpu, k, pad, start & 1), 'bytes %s, model %s on %s' % (sorted(got.items()), sorted(mem.items()), d))
    if labv != lab:
        return core.R(False, 'layout-label', 'layout/address/%s/%s/pad%d/start%d' % (cpu, k, pad, start & 1), 'label after the statement reads %x, model %x on %s' % (labv, lab, d))
    return core.R(True, 'layout-ok', states=['%s/%s/%d/%d/%d' % (cpu, k, n, pad, start & 1)])


def subspaces(tier):
    subs = []

    def from_groups(g, size=300):
        for cpu, its in sorted(g.items()):
            for b in micro.batches(pre_of(cpu), [], its, size):
                yield b
    subs.append(('a:integers', from_groups(int_items())))
    subs.append(('b:strings', from_groups(str_items())))
    subs.append(('b:register-arguments', from_groups(reg_items())))

    def cs():
        for p, its in charset_batches():
            for b in micro.batches(p, [], its, 300):
                yield b
    subs.append(('b:charset', cs()))
    subs.append(('c:dup', from_groups(dup_items())))
    subs.append(('d:half-precision', from_groups(half_items(tier), 1000)))
    subs.append(('d:single-double-extended', from_groups(wide_float_items(tier), 500)))
    subs.append(('e:reservation-padding-layout', list(layout_cases())))
    subs.append(('f:packed-strings-per-argument', from_groups(packed_items())))
    subs.append(('f:character-constants-and-oversize-literals', from_groups(charconst_items())))
    subs.append(('g:sub-unit-reservations', list(resv_cases())))
    subs.append(('g:sized-reservations', list(resvn_cases())))
    subs.append(('h:byte-order-after-a-cpu-switch', list(order_cases())))
    return subs


def charconst_items():
    """single-quoted character constants of 1..9 characters in every field width: up to four characters are one integer
    (first character most significant), longer ones are strings and give one element per character, exactly like the
    double-quoted form; float literals beyond the range of every format are rejected, not stored as infinity"""
    its = []
    for kw, w in (('db', 1), ('dw', 2), ('dd', 4), ('dq', 8)):
        for n in range(1, 10 if w < 8 else 8):      # (an item has 64 bytes of room)
            txt = 'ABCDEFGHI'[:n]
            per = b''.join(bytes([c]).ljust(w, b'\0') for c in txt.encode())
            its.append({'line': '\t%s "%s"' % (kw, txt), 'want': per.hex(), 'sig': '8086/%s/char-constants' % kw})
            asint = int.from_bytes(txt.encode(), 'big').to_bytes(w, 'little').hex() if n <= min(w, 4) else None
            its.append({'line': "\t%s '%s'" % (kw, txt), 'want': [per.hex()] + ([asint] if asint else []) if n > min(w, 4) or n == 1 else [asint],
                        'sig': '8086/%s/char-constants' % kw})
    # a string in a ten-byte field: every character as the extended-precision number of its code (0..255)
    for txt, raw in (('a', b'a'), ('ab', b'ab'), ('a\\228', b'a\xe4'), ('\\128\\255z', b'\x80\xffz')):
        its.append({'line': '\tdt "%s"' % txt, 'want': b''.join(ieee.ext80(float(c)).to_bytes(10, 'little') for c in raw).hex(), 'sig': '8086/dt/string'})
    # the largest doubles are doubles
    for lit, v in (('1.75e308', 1.75e308), ('1.7976931348623157e308', 1.7976931348623157e308), ('-1.79e308', -1.79e308)):
        its.append({'line': '\tdq %s' % lit, 'want': struct.pack('<d', v).hex(), 'sig': '8086/dq/float-near-the-largest-double'})
    for kw in ('dd', 'dq', 'dt'):
        for lit in ('1.0e400', '1e309', '-1.0e400', '123456789.0e301', '1.0e5000'):
            its.append({'line': '\t%s %s' % (kw, lit), 'want': 'ERR', 'sig': '8086/%s/float-literal-beyond-double' % kw})
    return {'8086': its}


def packed_items():
    """DATA on targets that pack two characters into a 16-bit word: every argument starts a word of its own, a string of odd
    length leaves the upper half of its last word 0, arguments are laid down in order"""
    alpha = [('"a"', 'a'), ('"ab"', 'ab'), ('"abc"', 'abc'), ('"abcd"', 'abcd'), ('4660', 4660), ('"z"', 'z')]
    out = {}
    for cpu in ('32015', '17c42'):
        its = []
        for n in (1, 2, 3):
            for args in itertools.product(alpha, repeat=n):
                b = b''
                for _, v in args:
                    if isinstance(v, int):
                        b += v.to_bytes(2, 'little')
                    else:
                        e = v.encode() + (b'\0' if len(v) & 1 else b'')
                        b += e
                its.append({'line': '\tdata %s' % ','.join(a for a, _ in args), 'want': b.hex(), 'sig': '%s/data/packed-strings' % cpu})
        out[cpu] = its
    # AVR: the characters of strings are packed two per word and go on across arguments; an integer takes a word of its own, and
    # a character still waiting for its partner is written out first, the upper half of its word 0 - nothing gets lost,
    # everything stays in order
    its = []
    for n in (1, 2, 3):
        for args in itertools.product(alpha + [('"vwxyz"', 'vwxyz')], repeat=n):
            b = b''
            for _, v in args:
                if isinstance(v, int):
                    if len(b) & 1:
                        b += b'\0'
                    b += v.to_bytes(2, 'little')
                else:
                    b += v.encode()
            if len(b) & 1:
                b += b'\0'
            its.append({'line': '\tdata %s' % ','.join(a for a, _ in args), 'want': b.hex(), 'sig': 'atmega8/data/packed-strings'})
    out['atmega8'] = its
    return out


def resv_cases():
    """'?' reservations of elements smaller than the address unit (DB in the word-addressed AVR code segment, DN nibbles), with
    DUP groups starting at aligned and unaligned element positions: the address advances by ceil(elements / per-unit)"""
    trees = []
    for n in (1, 2, 3):
        trees += [['?'], [(n, ['?'])], ['?', (n, ['?'])], [(n, ['?']), '?'], ['?', '?', (n, ['?'])], ['?', (n, ['?', (2, ['?'])]), '?'], [(n, ['?', '?', '?'])],
                  ['?', (n, ['?']), (2, ['?'])]]
    seen = []
    for t in trees:
        if t not in seen:
            seen.append(t)
    for cpu, kw, per, pre, prelen in (('atmega8', 'db', 2, 'nop', 1), ('8086', 'dn', 2, 'db 55h', 1), ('8086', 'db', 1, 'db 55h', 1), ('z80', 'dn', 2, 'db 55h', 1)):
        for t in seen:
            yield {'k': 'resv', 'cpu': cpu, 'kw': kw, 'per': per, 'pre': pre, 'prelen': prelen, 'tree': t}


RESN = [('8080', 'ds', 1), ('z80', 'ds', 1), ('8051', 'ds', 1), ('8086', 'ds', 1), ('6502', 'dfs', 1), ('6800', 'rmb', 1), ('6809', 'rmb', 1), ('68000', 'ds.b', 1),
        ('68000', 'ds.w', 2), ('68000', 'ds.l', 4), ('h8/300', 'ds.b', 1), ('st7', 'ds.b', 1), ('sh7000', 'ds.b', 1), ('68hc12', 'ds.b', 1), ('atmega8', 'res', 1),
        ('msp430', 'bss', 1), ('320c25', 'bss', 1), ('8048', 'ds', 1), ('z8601', 'ds', 1), ('1802', 'ds', 1), ('m16c', 'ds.b', 1), ('80c166', 'ds', 1), ('z180', 'ds', 1)]


RESN_DUP = [('6809', 'fcb [%d]?', 1), ('6809', 'fdb [%d]?', 2), ('6809', 'fcb [%d]7', 1), ('6809', 'fdb [%d]7', 2), ('6800', 'fcc [%d]"ab"', 2), ('6805', 'fcb [%d]?', 1),
            ('68hc12', 'fcb [%d]1', 1), ('68000', 'dc.b [%d]?', 1), ('68000', 'dc.w [%d]1', 2), ('68000', 'dc.l [%d]?', 4), ('st7', 'dc.b [%d]1', 1), ('6811', 'fdb [%d]1', 2)]


def resvn_cases():
    """reservations with an explicit size: the address advances by size x unit; a negative size is rejected (it would move the
    address back over code already written)"""
    for cpu, kw, unit in RESN:
        for n in (1, 2, 5, 100, -1, -2, -100):
            yield {'k': 'resvn', 'cpu': cpu, 'kw': kw, 'unit': unit, 'n': n}
    # the Motorola repeat factor [n] in front of a value or of '?'
    for cpu, kw, unit in RESN_DUP:
        for n in (1, 2, 5, 100, -1, -2, -100):
            yield {'k': 'resvn', 'cpu': cpu, 'kw': kw, 'unit': unit, 'n': n}


def ev_resvn(case):
    start = 0x40
    lines = ['\tcpu ' + case['cpu'], '\torg %d' % start, 'buf:\t' + (case['kw'] % case['n'] if '%d' in case['kw'] else '%s %d' % (case['kw'], case['n'])), 'after:']
    core.fresh()
    core.put('a.asm', '\n'.join(lines) + '\n')
    o = core.run('asl', ['-q', '-g', 'map', 'a.asm'])
    d = ' / '.join(l.strip() for l in lines)
    ck = core.crashkind(o)
    sig = '%s/%s' % (case['cpu'], case['kw'])
    if ck:
        return core.R(False, ck, 'crash/resvn/' + ck, '%s on %s' % (ck, d))
    if case['n'] < 0:
        # (out-of-range arguments are warnings unless -WARNRANGES asks for errors: the statement must not pass silently)
        if o.rc == 0 and b'> > >' not in o.err + o.out:
            return core.R(False, 'accepted', 'resv/negative-accepted/' + sig, 'a reservation of %d elements is accepted without any message on %s' % (case['n'], d))
        return core.R(True, 'resv-rejected', states=[sig + '/neg'])
    if o.rc != 0:
        return core.R(False, 'rejected', 'resv/rejected/' + sig, 'rc=%s %s on %s' % (o.rc, (o.out + o.err)[-150:].decode('latin-1'), d))
    m = re.search(r'(?mi)^Symbols in Segment \S+\s*\n((?:.*\n)*)', (core.get('a.map') or b'').decode('latin-1'))
    syms = dict((x.split()[0].lower(), x.split()) for x in (m.group(1) if m else '').split('\n') if len(x.split()) >= 3)
    if 'after' not in syms:
        return core.R(False, 'nomap', 'resv/no-symbol/' + sig, 'label after the reservation not in the MAP file on ' + d)
    val = int(syms['after'][2], 16) if syms['after'][1].lower().startswith('int') else None
    if val != start + case['n'] * case['unit']:
        return core.R(False, 'layout-label', 'resv/size/' + sig, 'label after the reservation of %d elements is %s, model %x on %s' % (case['n'], syms['after'], start + case['n'] * case['unit'], d))
    return core.R(True, 'resv-ok', states=['%s/%d' % (sig, case['n'])])


ORDER_T = [('st6210', 'word'), ('st6210', 'byte'), ('6502', 'adr'), ('6800', 'fdb'), ('6809', 'fdb'), ('8051', 'dw'), ('z80', 'dw'), ('8086', 'dw'), ('68000', 'dc.w'), ('st7', 'dc.w'),
           ('msp430', 'word'), ('6805', 'fdb'), ('68hc12', 'fdb'), ('65816', 'adr'), ('8048', 'dw'), ('tms7000', 'dw')]
ORDER_PRE = [('6809', 'fdb 1'), ('6502', 'adr 1'), ('8086', 'dw 1'), ('68000', 'dc.w 1'), ('st6210', 'word 1')]


def order_cases():
    """the byte order of a word is the selected target's: the same statement after another target has laid down a word in ITS order"""
    for cpu, stmt in ORDER_T:
        for pc, ps in ORDER_PRE:
            yield {'k': 'order', 'cpu': cpu, 'stmt': stmt, 'pcpu': pc, 'pstmt': ps}


def ev_order(case):
    res = []
    for first in (0, 1):
        l = (['\tcpu ' + case['pcpu'], '\t' + case['pstmt']] if first else []) + ['\tcpu ' + case['cpu'], '\torg 1000', '\t%s 1234h,56h' % case['stmt']]
        core.fresh()
        core.put('a.asm', '\n'.join(l) + '\n')
        o = core.run('asl', ['-q', 'a.asm'])
        ck = core.crashkind(o)
        if ck:
            return core.R(False, ck, 'crash/order/' + ck, '%s on %s' % (ck, ' / '.join(x.strip() for x in l)), transitions=2)
        p = core.get('a.p')
        if o.rc != 0 or p is None:
            return core.R(True, 'order-not-applicable', nontrivial=False, transitions=2)
        res.append(b''.join(r.data for r in pfile.data_records(pfile.read(p)) if r.start == 1000))
    if res[0] != res[1]:
        return core.R(False, 'order', 'order/%s/%s' % (case['cpu'], case['stmt']), '`%s 1234h,56h` on %s lays down %s, but %s after `cpu %s / %s`' % (case['stmt'], case['cpu'], res[0].hex(), res[1].hex(), case['pcpu'], case['pstmt']), transitions=2)
    return core.R(True, 'order-ok', states=['order:%s:%s' % (case['cpu'], res[0].hex())], transitions=2)


def ev_resv(case):
    def count(t):
        return sum(1 if x == '?' else x[0] * count(x[1]) for x in t)

    def rd(t):
        return ', '.join('?' if x == '?' else '%d dup (%s)' % (x[0], rd(x[1])) for x in t)
    n = count(case['tree'])
    start = 0x10
    after = start + case['prelen'] + (n + case['per'] - 1) // case['per']
    lines = ['\tcpu ' + case['cpu'], '\torg %d' % start, '\t' + case['pre'], 'buf:\t%s %s' % (case['kw'], rd(case['tree'])), 'after:\tdb 1,2', '\torg 256', '\tdw after']
    core.fresh()
    core.put('a.asm', '\n'.join(lines) + '\n')
    o = core.run('asl', ['-q', 'a.asm'])
    d = ' / '.join(l.strip() for l in lines)
    ck = core.crashkind(o)
    sig = '%s/%s' % (case['cpu'], case['kw'])
    if ck:
        return core.R(False, ck, 'crash/resv/' + ck, '%s on %s' % (ck, d))
    p = core.get('a.p')
    if o.rc != 0 or p is None:
        return core.R(False, 'rejected', 'resv/rejected/' + sig, 'rc=%s %s on %s' % (o.rc, (o.out + o.err)[-150:].decode('latin-1'), d))
    recs = pfile.data_records(pfile.read(p))
    val = None
    starts = []
    for r in recs:
        if r.start == 256:
            val = int.from_bytes(r.data[:2], 'little')
        else:
            starts.append((r.start, len(r.data) // r.gran))
    if val != after:
        return core.R(False, 'layout-label', 'resv/address/' + sig, 'label after the reservation of %d elements reads %s, model %x on %s' % (n, val if val is None else hex(val), after, d))
    if sorted(starts) != [(start, case['prelen']), (after, 2 // (2 if case['cpu'] == 'atmega8' else 1))]:
        return core.R(False, 'layout-bytes', 'resv/bytes/' + sig, 'data records %s, model code at %x and %x only on %s' % (starts, start, after, d))
    return core.R(True, 'resv-ok', states=['%s/%d' % (sig, n)])


def describe(case):
    if case['k'] == 'batch':
        return [it['line'].strip()[:60] for it in case['items'][:4]]
    if case['k'] in ('layout', 'resv', 'resvn', 'order'):
        return case
    return case.get('line', '').strip()[:80]


def sigf(it):
    return it.get('sig', '?')


def evaluate(case):
    if case['k'] == 'order':
        return ev_order(case)
    if case['k'] == 'resvn':
        return ev_resvn(case)
    if case['k'] == 'layout':
        return ev_layout(case)
    if case['k'] == 'resv':
        return ev_resv(case)
    return micro.evaluate_batch(case, lambda a: 'org %d' % a, sigf)
