import itertools, os, subprocess, sys, tempfile, shutil, collections, struct
from multiprocessing import Pool
sys.path.insert(0,'/tmp/w/s')
from pdump import parse
ASL=os.environ.get('ASLBIN','/repo/_build/asl')
TOK=['IF0','IF1','ELSEIF0','ELSEIF1','ELSE','ENDIF','SWITCH','CASEhit','CASEmiss','CASEmulti','ELSECASE','ENDCASE','EMIT']
SRC={'IF0':'if 0','IF1':'if 1','ELSEIF0':'elseif 0','ELSEIF1':'elseif 1','ELSE':'else','ENDIF':'endif','SWITCH':'switch 5','CASEhit':'case 5','CASEmiss':'case 4','CASEmulti':'case 3,5,7','ELSECASE':'elsecase','ENDCASE':'endcase'}
def render(seq):
    out=['\tcpu 8080']
    for i,t in enumerate(seq):
        out.append('\tdb %d'%(i+1) if t=='EMIT' else '\t'+SRC[t])
    return '\n'.join(out)+'\n'
def model(seq):
    """returns ('ok', markers, warn) or ('err',)"""
    st=[]  # frames: dict(kind, phase, taken, enc)
    active=True; out=[]; warn=0
    for i,t in enumerate(seq):
        if t=='EMIT':
            if active: out.append(i+1)
        elif t in('IF0','IF1'):
            c=(t=='IF1')
            st.append(dict(kind='IF',phase='open',taken=c and active,enc=active,any=c))
            active=active and c
        elif t in('ELSEIF0','ELSEIF1','ELSE'):
            if not st or st[-1]['kind']!='IF' or st[-1]['phase']!='open': return ('err',)
            f=st[-1]
            c=True if t=='ELSE' else (t=='ELSEIF1')
            if t=='ELSE': f['phase']='else'
            take=f['enc'] and c and not f['any']
            if c: f['any']=True   # latch only when enclosing active? condition evaluated only if enclosing active and not any
            active=take
        elif t=='ENDIF':
            if not st or st[-1]['kind']!='IF': return ('err',)
            f=st.pop(); active=f['enc']
        elif t=='SWITCH':
            st.append(dict(kind='SW',phase='open',enc=active,any=False))
        elif t in('CASEhit','CASEmiss','CASEmulti'):
            if not st or st[-1]['kind']!='SW' or st[-1]['phase']=='elsecase': return ('err',)
            f=st[-1]; f['phase']='case'
            c=(t!='CASEmiss')
            take=f['enc'] and c and not f['any']
            if c: f['any']=True
            active=take
        elif t=='ELSECASE':
            if not st or st[-1]['kind']!='SW' or st[-1]['phase']=='elsecase': return ('err',)
            f=st[-1]; f['phase']='elsecase'
            active=f['enc'] and not f['any']; f['any']=True
        elif t=='ENDCASE':
            if not st or st[-1]['kind']!='SW': return ('err',)
            f=st.pop()
            if f['enc'] and not f['any']: warn+=1
            active=f['enc']
    if st: return ('err',)
    return ('ok',out,warn)
base=tempfile.mkdtemp(dir='/dev/shm')
def run(seq):
    d=os.path.join(base,str(os.getpid())); os.makedirs(d,exist_ok=True)
    p=os.path.join(d,'a.p')
    if os.path.exists(p): os.unlink(p)
    open(os.path.join(d,'a.asm'),'w').write(render(seq))
    try:
        r=subprocess.run([ASL,'-q','a.asm'],cwd=d,capture_output=True,timeout=3,env={'LC_ALL':'C'})
    except subprocess.TimeoutExpired:
        return seq,'TIMEOUT'
    m=model(seq)
    if r.returncode<0: return seq,'SIGNAL%d'%-r.returncode
    if m[0]=='err':
        if r.returncode!=2 or os.path.exists(p): return seq,'illformed-but rc%d'%r.returncode
        return seq,'ok-err'
    if r.returncode!=0: return seq,'wellformed-but rc%d %s'%(r.returncode,r.stderr.decode().split('\n')[0][-40:])
    recs=parse(open(p,'rb').read())
    got=[b for x in recs if x[0]=='data' for b in x[7]]
    if got!=m[1]: return seq,'MARKERS got %s want %s'%(got,m[1])
    nw=r.stderr.decode().count('warning')
    if nw!=m[2]: return seq,'WARN got %d want %d'%(nw,m[2])
    return seq,'ok'
if __name__=='__main__':
    n=int(sys.argv[1])
    seqs=[s for k in range(1,n+1) for s in itertools.product(TOK,repeat=k)]
    print(len(seqs),'programs')
    with Pool(16) as p: rs=p.map(run,seqs,chunksize=50)
    c=collections.Counter(r.split(' got')[0].split(' rc')[0] for _,r in rs)
    print(c)
    shown=collections.Counter()
    for s,r in rs:
        k=r.split(' got')[0]
        if not r.startswith('ok') and shown[k]<5: shown[k]+=1; print(r,'|',' '.join(s))
    shutil.rmtree(base)
