"""C02 - exit status, code file and reported errors always agree.

State machine: (errors, warnings, fatal) accumulated by line kinds, with the documented rules for the exit
status, the existence of the code file, -Werror, -maxerrors and the summary counts.  Every history of
line kinds up to the depth bound x every option set within the deviation bound is executed on the real
assembler; counter boundaries bracket every plausible counter width; multi-file runs cover per-file effects.
"""
import itertools
import os, re
from .. import core
from ..fmt import pfile

ID = 'C02'
LEVEL = 'model_checking'
VARIANTS = ['plain', 'asan']
CHUNK = 32
ENGINE = 'history-explorer'
TECHNIQUE = 'exhaustive line-kind histories x option deviations executed on the real assembler against a counter/status model'
LEVEL_TEXT = ('Every sequence of up to 4 (quick) / 5 (thorough) line kinds (ok, unknown mnemonic, range error, WARNING, ERROR, FATAL, forward '
              'reference) under every option set within 1 / 2 deviations from the default, N identical erroneous or warning lines for N bracketing '
              '8-, 16- and 17-bit counter widths, and every sequence of up to 3 files over {clean, warn-only, failing, fatal} are assembled; exit '
              'status, code-file existence, diagnostics on the selected channel and the summary counts are compared with the status model.'
              ' File sequences also cover a genuine branch-distance failure, a source needing a repass, a macro using SHIFT, and -o lists naming none / the first / all outputs (each code file must hold its own source). Branch-distance programs of the manual (BEQ over n size-changing instructions, n around the limit) are checked with a model-free consistency oracle: reported = counted = exit status = code file.'
              ' EXPECT/ENDEXPECT blocks (announced numbers x provoked statements, fatal ones included) and every output file made uncreatable (its name is a directory) are enumerated too: status, code file and counts must follow the model, no crash, no hang. A diagnostic raised while a pass is being set up (-cpu with target arguments the target does not know) counts like any other.')
LEVEL_NOTE = ('Trusted: the status model written from the manual (exit codes 0/2/3, -Werror, -maxerrors). Only four error kinds are used; the '
              'counting path (WrErrorString) is shared by all messages.')
RULE = ('(a) line-kind histories x option sets with <=k deviations; (b) N identical lines, N in boundary set; (c) file sequences. '
        'Non-trivial = at least one diagnostic or option deviation.')
BOUNDS = {'quick': '(a) len<=4 x <=1 option deviation; (b) N<=65537; (c) len<=2', 'thorough': '(a) len<=4 x <=2 deviations, len 5 x <=1; (b) N<=131072; (c) len<=3'}
ASSUMPTIONS = ['a pass that reported errors is the last pass (no repass after errors)',
               'warnings are re-emitted in every pass; the summary counts the final pass']

K = ['ok', 'err', 'rng', 'warn', 'perr', 'fatal', 'fwd', 'oif']
SRC = {'ok': '\tnop', 'err': '\tfoo', 'rng': '\tdb 300', 'warn': '\twarning "w"', 'perr': '\terror "e"', 'fatal': '\tfatal "f"', 'fwd': '\tdw later',
       'oif': '\tif 1'}       # never closed: one error raised at the END of the source, outside every line
OPTS = [['-Werror'], ['-maxerrors', '1'], ['-maxerrors', '2'], ['-maxerrors', '3'], ['-x'], ['-x', '-x'], ['-n'], ['-q'],
        ['-E', 'err.log'], ['-E', '!1'], ['-gnuerrors'], ['-w']]


def optsets(k):
    out = [[]]
    for r in range(1, k + 1):
        for c in itertools.combinations(range(len(OPTS)), r):
            names = [OPTS[i][0] for i in c]
            if len(set(names)) < len(names):   # two -maxerrors / two -E / -x and -x -x are one deviation each
                continue
            out.append([a for i in c for a in OPTS[i]])
    return out


def model(seq, opt):
    werr = '-Werror' in opt
    mx = int(opt[opt.index('-maxerrors') + 1]) if '-maxerrors' in opt else 0
    npass = 2 if 'fwd' in seq else 1
    le = lw = 0   # diagnostic lines on the channel over all passes
    for ps in range(npass):
        e = w = 0
        for k in seq:
            if k in ('err', 'rng', 'perr'):
                e += 1
                le += 1
            elif k == 'warn':
                if werr:
                    e += 1
                    le += 1
                else:
                    w += 1
                    lw += 1
            elif k == 'fatal':
                return dict(rc=3, p=False, e=None, w=None, le=None, lw=None)
            if mx and e >= mx and k in ('err', 'rng', 'perr', 'warn') and (k != 'warn' or werr):
                return dict(rc=3, p=False, e=None, w=None, le=None, lw=None)
        if 'oif' in seq:
            # one "missing ENDIF" for the whole source, however many are open
            e += 1
            le += 1
            if mx and e >= mx:
                return dict(rc=3, p=False, e=None, w=None, le=None, lw=None)
        if e:
            break
    return dict(rc=2 if e else 0, p=(e == 0), e=e, w=w, le=le, lw=lw)


def subspaces(tier):
    subs = []
    n, k = (4, 1) if tier == 'quick' else (4, 2)

    def hist(n, k):
        for ln in range(1, n + 1):
            for s in itertools.product(K, repeat=ln):
                for o in optsets(k):
                    yield {'k': 'h', 'seq': list(s), 'opt': o}
    subs.append(('a:histories<=%d,opts<=%d' % (n, k), hist(n, k)))
    if tier != 'quick':
        def h5():
            for s in itertools.product(K, repeat=5):
                for o in optsets(1):
                    yield {'k': 'h', 'seq': list(s), 'opt': o}
        subs.append(('a:histories=5,opts<=1', h5()))
    ns = [0, 1, 2, 255, 256, 257, 65535, 65536, 65537] + ([131071, 131072] if tier != 'quick' else [])
    cb = [{'k': 'n', 'n': N, 'kind': kind, 'werr': we, 'q': q} for N in ns for kind in ('err', 'warn') for we in (0, 1) for q in (0, 1)]
    subs.append(('b:counter-boundaries', cb))
    fk = ['clean', 'warn', 'fail', 'fatal', 'jfail', 'repass', 'shift']
    fl = 2 if tier == 'quick' else 3
    mf = [{'k': 'f', 'files': list(s), 'werr': we, 'o': om} for ln in range(1, fl + 1) for s in itertools.product(fk, repeat=ln) for we in (0, 1)
          for om in ('none', 'first', 'all') if not (om == 'first' and ln == 1)]
    # the same sequences with the diagnostics collected in one -E file: it holds the messages of every source of the run
    mf += [{'k': 'f', 'files': list(s), 'werr': we, 'o': 'none', 'elog': 1} for ln in range(1, fl + 1) for s in itertools.product(fk, repeat=ln) for we in (0, 1)]
    subs.append(('c:file-sequences<=%d' % fl, mf))
    subs.append(('d:branch-distance-programs', list(jprogs(tier))))
    subs.append(('e:expected-diagnostics', list(xprogs(tier))))
    subs.append(('f:blocked-output-files', [{'k': 'b', 'blk': b, 'src': sk, 'opt': o} for b in range(len(BLOCK)) for sk in ('ok', 'warn', 'err', 'fatal')
                                            for o in ([], ['-Werror'], ['-x'])]))
    subs.append(('g:diagnostics-before-the-first-line', [{'k': 'c', 'cpu': c, 'src': sk, 'opt': o} for c in CPUSPEC for sk in ('none', 'ok', 'warn', 'err')
                                                          for o in ([], ['-Werror'], ['-x'], ['-L'])]))
    return subs


# (g) a diagnostic raised while a pass is being set up (the default CPU of -cpu carries an argument the target does not know)
# is a diagnostic like any other: it is counted, decides the exit status and keeps the code file away
CPUSPEC = ['8080', 'atmega8', 'atmega8:codesegsize=0', 'atmega8:foo=1', 'atmega8:codesegsize=9', 'atmega8:codesegsize', 'z80:foo=1', '6809:x=1', '68000:', 'atmega8:foo=1:bar=2']


def ev_cpuarg(case):
    body = {'none': '', 'ok': '\tnop\n', 'warn': '\twarning "w"\n', 'err': '\tfoo bar\n'}[case['src']]
    core.put('a.asm', body)
    o = core.run('asl', ['-cpu', case['cpu']] + case['opt'] + ['a.asm'], timeout=10)
    d = 'asl -cpu %s %s on %r' % (case['cpu'], ' '.join(case['opt']), body)
    ck = core.crashkind(o)
    if ck:
        return core.R(False, ck, 'cpuarg/crash/' + ck, '%s on %s' % (ck, d))
    txt = (o.out + o.err).decode('latin-1')
    if 'PASS 1' not in txt:
        # the command line itself was refused: nothing was assembled
        if o.rc == 0 or os.path.isfile(os.path.join(core.workdir(), 'a.p')):
            return core.R(False, 'refused', 'cpuarg/refused-but-ok', 'nothing assembled, exit status %s on %s' % (o.rc, d))
        return core.R(True, 'c-refused', states=['c|refused'])
    ne = len(re.findall(r'(?m)^> > > .*?: (?:error|fatal)', txt))
    nw = len(re.findall(r'(?m)^> > > .*?: warning', txt))
    m = re.search(r'(?m)^\s*(\d+) errors?\s*$', txt)
    mw = re.search(r'(?m)^\s*(\d+) warnings?\s*$', txt)
    werr = '-Werror' in case['opt']
    if werr:
        ne, nw = ne + nw, 0
    want = 2 if ne else 0
    have = os.path.isfile(os.path.join(core.workdir(), 'a.p'))
    sig = 'cpuarg/%s/%%s' % ('arg' if ':' in case['cpu'] else 'plain')
    if o.rc != want:
        return core.R(False, 'rc', sig % ('rc-got%s' % o.rc), '%d errors reported, exit status %s on %s' % (ne, o.rc, d))
    if have != (want == 0):
        return core.R(False, 'codefile', sig % 'codefile', 'exit status %s, code file %s on %s' % (o.rc, have, d))
    if not m or int(m.group(1)) != ne or (not werr and (not mw or int(mw.group(1)) != nw)):
        return core.R(False, 'count', sig % 'count', 'summary says %s errors %s warnings, %d/%d emitted on %s' % (m and m.group(1), mw and mw.group(1), ne, nw, d))
    return core.R(True, 'c-rc%d' % o.rc, nontrivial=ne > 0, states=['c|%d|%d' % (min(ne, 2), min(nw, 2))])


# (f) an output file that cannot be created (its name is a directory) is a fatal error: status 3, no code file, no crash -
# whichever output it is and however late in the run it is opened (the debug-info files are written after the code file is closed)
BLOCK = [(['-L'], 'a.lst'), (['-g', 'map'], 'a.map'), (['-g', 'noice'], 'a.noi'), (['-g', 'atmel'], 'a.obj'), (['-M'], 'a.mac'), (['-P'], 'a.i'),
         ([], 'a.p'), (['-c'], 'a.h'), (['-a'], 'a.inc'), (['-p'], 'a.inc'), (['-o', 'out/x.p'], 'out/x.p'), (['-L', '-olist', 'l.lst'], 'l.lst'),
         (['-a', '-shareout', 'sh.inc'], 'sh.inc')]


def ev_blocked(case):
    opt, blk = BLOCK[case['blk']]
    src = '\tcpu 8080\nm\tmacro {export}\n\tnop\n\tendm\nx\tequ 1\n\tm\n%s\n\tnop\n' % SRC[case['src']]
    core.put('a.asm', src)
    os.makedirs(os.path.join(core.workdir(), blk))
    o = core.run('asl', ['-q'] + opt + case['opt'] + ['a.asm'], variant='asan', timeout=20)
    d = '%s | asl -q %s  with %s being a directory' % (case['src'], ' '.join(opt + case['opt']), blk)
    ck = core.crashkind(o)
    sig = 'blocked/%s/%%s' % blk.split('.')[-1]
    if ck:
        return core.R(False, ck, sig % ('crash/' + (core.asan_site(o.err) if ck == 'ASAN' else ck)), '%s on %s' % (ck, d))
    want = (3,) if case['src'] in ('ok', 'warn', 'fatal') and not (case['src'] == 'warn' and '-Werror' in case['opt']) else (2, 3)
    if o.rc not in want:
        return core.R(False, 'rc', sig % ('rc-got%s' % o.rc), 'exit status %s, model %s on %s' % (o.rc, want, d))
    pth = os.path.join(core.workdir(), 'out/x.p' if '-o' in opt else 'a.p')
    if os.path.isfile(pth):
        return core.R(False, 'codefile', sig % 'codefile', 'exit status %s and a code file on %s' % (o.rc, d))
    return core.R(True, 'b-rc%d' % o.rc, nontrivial=True, states=['b|%d' % o.rc])


# (e) EXPECT/ENDEXPECT blocks: an expected error that occurs is neither reported nor counted, one that does not occur is an
# error at ENDEXPECT, and a fatal error ends the run whether or not its number was listed
XS = {'ok': ('\tnop', None), 'err': ('\tfoo', 1200), 'rng': ('\tdb 300', 1320), 'perr': ('\terror "e"', 'E'), 'warn': ('\twarning "w"', 'W'),
      'fatal': ('\tfatal "f"', 'F'), 'noinc': ('\tinclude "nonexist.inc"', 'F')}


def xprogs(tier):
    exps = ([1200], [1320], [10001], [10006], [1200, 1320], [1200, 1200], [1320, 10001])
    for ex in exps:
        for ln in (1, 2) if tier == 'quick' else (1, 2, 3):
            for body in itertools.product(sorted(XS), repeat=ln):
                for closed in (1, 0):
                    for opt in ([], ['-Werror']) if closed else ([],):
                        yield {'k': 'x', 'ex': ex, 'body': list(body), 'closed': closed, 'opt': opt}


def ev_x(case):
    l = ['\tcpu 8080', '\texpect %s' % ','.join(str(x) for x in case['ex'])] + [XS[b][0] for b in case['body']] + (['\tendexpect'] if case['closed'] else []) + ['\tnop']
    core.put('a.asm', '\n'.join(l) + '\n')
    o = core.run('asl', ['-n'] + case['opt'] + ['a.asm'], timeout=5)
    d = '%s | asl -n %s' % (' / '.join(x.strip() for x in l[1:]), ' '.join(case['opt']))
    ck = core.crashkind(o)
    if ck:
        return core.R(False, ck, 'expect/crash/' + ck, '%s on %s' % (ck, d))
    # model
    pend = list(case['ex'])
    e = w = 0
    fatal = False
    for b in case['body']:
        n = XS[b][1]
        if n is None:
            continue
        if n == 'F':
            fatal = True
            break
        if n == 'W':
            w += 1
        elif n == 'E':
            e += 1
        elif n in pend:
            pend.remove(n)
        else:
            e += 1
    if not fatal:
        e += len(pend) if case['closed'] else 1      # one "did not occur" per number left / one "missing ENDEXPECT"
        if '-Werror' in case['opt']:
            e, w = e + w, 0
    heads = [x for x in re.split(r'[\r\n]', o.err.decode('latin-1')) if x.startswith('> > > ')]
    nw = sum(1 for x in heads if re.search(r'\): ?(\d+: )?warning', x) or re.search(r':\d+: warning', x))
    ne = len(heads) - nw
    want_rc = 3 if fatal else 2 if e else 0
    sig = 'expect/%s'
    if o.rc != want_rc:
        return core.R(False, 'rc', sig % ('rc-got%s-want%s' % (o.rc, want_rc)), 'exit status %s, model %s on %s' % (o.rc, want_rc, d))
    p = core.get('a.p') is not None
    if p != (want_rc == 0):
        return core.R(False, 'codefile', sig % 'codefile', 'exit status %s, code file exists=%s on %s' % (o.rc, p, d))
    if not fatal and (ne, nw) != (e, w):
        return core.R(False, 'count', sig % 'reported', '%d error(s) and %d warning(s) reported, model %d and %d on %s\n%s' % (ne, nw, e, w, d, '\n'.join(heads[:6])))
    if fatal and ne < 1:
        return core.R(False, 'count', sig % 'fatal-silent', 'fatal error not reported on ' + d)
    return core.R(True, 'x-rc%d' % o.rc, nontrivial=True, states=['x|%d|%d|%d' % (o.rc, e, w)])


# (d) programs whose branch errors are "questionable" (the label behind them moves in the same pass): whatever the assembler
# decides about such an error, what it REPORTS, what it COUNTS and what it EXITS with must agree
def jprogs(tier):
    ns = (40, 60, 64, 70) if tier == 'quick' else (20, 40, 42, 43, 60, 62, 63, 64, 65, 70, 100)
    for n in ns:
        for var_first in (0, 1):
            for back in (0, 1):
                for tail in ('', 'err', 'warn'):
                    for opt in ([], ['-Werror'], ['-x'], ['-q']):      # (not -Y: it is documented to print such an error and then forget it)
                        yield {'k': 'j', 'n': n, 'var_first': var_first, 'back': back, 'tail': tail, 'opt': opt}


def ev_j(case):
    l = ['\tcpu 6811', '\torg $8000']
    if case['var_first']:
        l += ['Var\tequ $10']
    if case['back']:
        l += ['back:\tnop']
    l += ['\tbeq skip', '\trept %d' % case['n'], '\tldd Var', '\tendm', 'skip:\tnop']
    if case['back']:
        l += ['\tbne back']
    if case['tail']:
        l += [SRC[case['tail']]]
    if not case['var_first']:
        l += ['Var\tequ $10']
    core.put('a.asm', '\n'.join(l) + '\n')
    o = core.run('asl', case['opt'] + ['a.asm'])
    d = '%s | asl %s' % (' / '.join(x.strip() for x in l[2:]), ' '.join(case['opt']))
    ck = core.crashkind(o)
    if ck:
        return core.R(False, ck, 'crash/' + ck, '%s on %s' % (ck, d))
    ch = o.err.decode('latin-1')
    heads = [x for x in re.split(r'[\r\n]', ch) if x.startswith('> > > a.asm(')]
    nw = sum(1 for x in heads if 'warning:' in x)
    ne = len(heads) - nw
    out = o.out.decode('latin-1')
    me = re.search(r'(\d+) errors?', out)
    se = int(me.group(1)) if me else (ne if '-q' in case['opt'] else None)
    p = core.get('a.p') is not None
    sig = 'branch-distance/%s'
    if (o.rc == 0) != (ne == 0):
        return core.R(False, 'rc', sig % 'rc-vs-reported', 'exit status %s with %d error(s) reported on %s' % (o.rc, ne, d))
    if o.rc not in (0, 2):
        return core.R(False, 'rc', sig % 'rc-value', 'exit status %s on %s' % (o.rc, d))
    if p != (o.rc == 0):
        return core.R(False, 'codefile', sig % 'codefile', 'exit status %s, code file exists=%s on %s' % (o.rc, p, d))
    if se != ne:
        return core.R(False, 'summary-err', sig % 'summary', 'summary says %s errors, %d reported on %s' % (se, ne, d))
    return core.R(True, 'j-rc%d' % o.rc, nontrivial=True, states=['j|%d|%d|%d' % (o.rc, ne, nw)])


def describe(case):
    if case['k'] == 'h':
        return '%s | asl %s' % (' / '.join(case['seq']), ' '.join(case['opt']))
    return case


def channel(o, opt):
    if '-E' in opt:
        t = opt[opt.index('-E') + 1]
        if t == '!1':
            return o.out.decode('latin-1')
        return (core.get(t) or b'').decode('latin-1')
    return o.err.decode('latin-1')


def evaluate(case):
    core.fresh()
    if case['k'] == 'h':
        return ev_hist(case)
    if case['k'] == 'n':
        return ev_count(case)
    if case['k'] == 'j':
        return ev_j(case)
    if case['k'] == 'x':
        return ev_x(case)
    if case['k'] == 'b':
        return ev_blocked(case)
    if case['k'] == 'c':
        return ev_cpuarg(case)
    return ev_files(case)


def ev_hist(case):
    seq, opt = case['seq'], case['opt']
    core.put('a.asm', '\tcpu 8080\n' + '\n'.join(SRC[k] for k in seq) + '\nlater:\tnop\n')
    o = core.run('asl', opt + ['a.asm'])
    m = model(seq, opt)
    ck = core.crashkind(o)
    d = describe(case)
    if ck:
        return core.R(False, ck, 'crash/' + ck, '%s on %s' % (ck, d))
    nt = any(k != 'ok' for k in seq) or bool(opt)
    st = ['%s|%s|%s' % (m['rc'], m['e'], m['w'])]
    if o.rc != m['rc']:
        return core.R(False, 'rc', 'rc/got%s-want%s' % (o.rc, m['rc']), 'exit status %s, model %s on %s' % (o.rc, m['rc'], d))
    p = core.get('a.p') is not None
    if p != m['p']:
        return core.R(False, 'codefile', 'codefile/%s' % ('kept-after-error' if p else 'missing'), 'code file exists=%s, model %s on %s' % (p, m['p'], d))
    if m['e'] is not None:
        if '-q' not in opt:
            out = o.out.decode('latin-1')
            me = re.search(r'(\d+) errors?', out)
            mw = re.search(r'(\d+) warnings?', out)
            if not me or int(me.group(1)) != m['e']:
                return core.R(False, 'summary-err', 'summary/errors', 'summary errors %s, model %d on %s' % (me and me.group(1), m['e'], d))
            if not mw or int(mw.group(1)) != m['w']:
                return core.R(False, 'summary-warn', 'summary/warnings', 'summary warnings %s, model %d on %s' % (mw and mw.group(1), m['w'], d))
        ch = channel(o, opt)
        heads = [l for l in re.split(r'[\r\n]', ch) if re.match(r'(> > > a\.asm\(\d+\)|a\.asm:\d+[: ]|> > > INTERNAL|INTERNAL[: ])', l)]
        nw = sum(1 for l in heads if 'warning:' in l or re.search(r'warning #\d+:', l))
        ne = len(heads) - nw
        if (ne, nw) != (m['le'], m['lw']):
            return core.R(False, 'channel', 'channel/count', 'diagnostic lines on channel errors=%d warnings=%d, model %d/%d on %s' % (ne, nw, m['le'], m['lw'], d))
    return core.R(True, 'rc%d' % o.rc, nontrivial=nt, states=st)


def ev_count(case):
    N, kind = case['n'], case['kind']
    line = SRC['err' if kind == 'err' else 'warn'] + '\n'
    core.put('a.asm', '\tcpu 8080\n' + line * N + '\tnop\n')
    opt = (['-Werror'] if case['werr'] else []) + (['-q'] if case['q'] else [])
    o = core.run('asl', opt + ['a.asm'], timeout=120, maxout=64 << 20)
    ck = core.crashkind(o)
    if ck:
        return core.R(False, ck, 'crash/' + ck, '%s with %d x %s' % (ck, N, kind))
    iserr = kind == 'err' or case['werr']
    e = N if iserr else 0
    w = 0 if iserr else N
    wantrc = 2 if e else 0
    d = '%d x "%s" asl %s' % (N, line.strip(), ' '.join(opt))
    if o.rc != wantrc:
        return core.R(False, 'rc', 'count/rc/N=%d' % N, 'exit status %s, model %s on %s' % (o.rc, wantrc, d))
    p = core.get('a.p') is not None
    if p != (e == 0):
        return core.R(False, 'codefile', 'count/codefile/N=%d' % N, 'code file exists=%s on %s' % (p, d))
    if not case['q']:
        out = o.out.decode('latin-1')
        me = re.search(r'(\d+) errors?', out)
        mw = re.search(r'(\d+) warnings?', out)
        if not me or int(me.group(1)) != e or not mw or int(mw.group(1)) != w:
            return core.R(False, 'summary', 'count/summary/N=%d' % N, 'summary %s/%s, model %d/%d on %s' % (me and me.group(1), mw and mw.group(1), e, w, d))
    ch = o.err.decode('latin-1')
    ne, nw = ch.count('error:'), ch.count('warning:')
    if (ne, nw) != (e, w):
        return core.R(False, 'channel', 'count/channel/N=%d' % N, 'diagnostic lines %d/%d, model %d/%d on %s' % (ne, nw, e, w, d))
    return core.R(True, 'count-ok', nontrivial=N > 0, states=['N%d%s' % (N, kind)])


FSRC = {'clean': '\tcpu 8080\n\tnop\n', 'warn': '\tcpu 8080\n\twarning "w"\n\tnop\n', 'fail': '\tcpu 8080\n\tfoo\n\tnop\n', 'fatal': '\tcpu 8080\n\tfatal "f"\n',
        # a genuine, final branch error / an error-free source that needs another pass because a label moves / a macro using SHIFT
        'jfail': '\tcpu 6811\n\torg $8000\nback:\tnop\n\trept 100\n\tldd $1234\n\tendm\n\tbeq back\n',
        'repass': '\tcpu 6811\n\torg $8000\n\tldd Var\nlab:\tnop\n\tjmp lab\nVar\tequ $10\n',
        'shift': '\tcpu 8080\nm\tmacro a,b\n\tshift\n\tdb a\n\tendm\n\tm 1,2\n'}


def ev_files(case):
    names = []
    for i, k in enumerate(case['files']):
        n = 'f%d' % i
        core.put(n + '.asm', FSRC[k] + ('\tdb %d\n' % (0xe0 + i) if k != 'fatal' else ''))      # every source ends in a byte of its own
        names.append(n + '.asm')
    opt = ['-Werror'] if case['werr'] else []
    om = case.get('o', 'none')
    nout = {'none': 0, 'first': 1, 'all': len(names)}[om]
    outn = ['out%d.p' % i for i in range(nout)]
    for x in outn:
        opt += ['-o', x]
    outn += ['f%d.p' % i for i in range(nout, len(names))]
    if case.get('elog'):
        opt += ['-E', 'err.log']
    o = core.run('asl', opt + ['-q'] + names)
    ck = core.crashkind(o)
    d = 'asl %s %s' % (' '.join(opt), ' '.join(case['files']))
    if ck:
        return core.R(False, ck, 'crash/' + ck, '%s on %s' % (ck, d))
    rc = 0
    exp = []
    for k in case['files']:
        if k == 'fatal':
            rc = 3
            exp.append(False)
            break
        bad = k in ('fail', 'jfail') or (k == 'warn' and case['werr'])
        if bad:
            rc = 2
        exp.append(not bad)
    if o.rc != rc:
        return core.R(False, 'rc', 'files/rc', 'exit status %s, model %s on %s' % (o.rc, rc, d))
    for i, want in enumerate(exp):
        got = core.get(outn[i])
        have = got is not None
        if have != want:
            return core.R(False, 'codefile', 'files/codefile', '%s exists=%s, model %s on %s' % (outn[i], have, want, d))
        if have and not got.rstrip(b'\0').split(b'\0\0')[0] or have and bytes([0xe0 + i]) not in got:
            return core.R(False, 'codefile', 'files/codefile-content', '%s does not hold the code of source %d on %s' % (outn[i], i, d))
        if have:
            try:
                recs = [r for r in pfile.data_records(pfile.read(got))]
            except Exception as e:
                return core.R(False, 'codefile', 'files/codefile-unreadable', '%s: %r on %s' % (outn[i], e, d))
            if not recs or recs[-1].data[-1] != 0xe0 + i:
                return core.R(False, 'codefile', 'files/codefile-content', '%s does not end in the last byte of source %d on %s' % (outn[i], i, d))
    if case.get('elog'):
        log = (core.get('err.log') or b'').decode('latin-1')
        for i, k in enumerate(case['files'][:len(exp)]):
            if k in ('warn', 'fail', 'jfail', 'fatal') and ('f%d.asm' % i) not in log:
                return core.R(False, 'errlog', 'files/error-log-lost-a-file', 'err.log does not mention f%d.asm (%s) on %s' % (i, k, d))
        outn = outn + ['err.log']
    import os
    stray = sorted(x for x in os.listdir(core.workdir()) if not x.endswith('.asm') and x not in outn and not x.startswith('.'))
    if stray:
        return core.R(False, 'codefile', 'files/stray-output', 'unexpected files %s on %s' % (stray, d))
    return core.R(True, 'files-rc%d' % rc, states=['F' + '|'.join(case['files'])])
