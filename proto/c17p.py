import os, subprocess, sys, tempfile, shutil, collections, hashlib, itertools
from multiprocessing import Pool
ASL='/repo/_build/asl'; T='/repo/tests'
tests=sorted(t for t in os.listdir(T) if os.path.exists(os.path.join(T,t,t+'.asm')))
def flags(t):
    p=os.path.join(T,t,'asflags')
    return open(p).readline().split() if os.path.exists(p) else []
OPTS=[[],['-L'],['-l'],['-u','-L'],['-C','-L'],['-s','-L'],['-I','-L'],['-g','MAP'],['-g','NOICE'],['-g','ATMEL'],['-t','1','-L'],['-t','2','-L'],['-t','16','-L'],['-x'],['-x','-x'],['-n'],['-A'],['-r'],['-E','err.log'],['-gnuerrors'],['-LISTRADIX','8','-L'],['-LISTRADIX','2','-L'],['-P'],['-M'],['-h','-L'],['-SPLITBYTE','.','-L'],['-u'],['-C'],['-L','-g','MAP','-u','-C','-s','-A']]
base=tempfile.mkdtemp(dir='/dev/shm')
def prep(d,t):
    for f in os.listdir(os.path.join(T,t)):
        if not f.endswith('.ori') and f!='asflags' and not f.endswith('.doc'):
            shutil.copy(os.path.join(T,t,f),d)
def run(job):
    t,o=job
    d=tempfile.mkdtemp(dir=base); prep(d,t)
    try:
        r=subprocess.run([ASL]+flags(t)+['-q','-i','/repo/include']+o+[t+'.asm'],cwd=d,capture_output=True,env={'LC_ALL':'C'},timeout=60)
        rc=r.returncode
    except subprocess.TimeoutExpired: rc='TIMEOUT'
    h=hashlib.sha1(open(d+'/'+t+'.p','rb').read()).hexdigest() if os.path.exists(d+'/'+t+'.p') else None
    shutil.rmtree(d); return (t,tuple(o)),(rc,h)
if __name__=='__main__':
    jobs=[(t,o) for t in tests for o in OPTS]
    print(len(jobs),'jobs')
    with Pool(16) as p: rs=dict(p.map(run,jobs,chunksize=4))
    bad=[(k,v,rs[(k[0],())]) for k,v in rs.items() if v!=rs[(k[0],())]]
    print(len(bad),'deviations')
    c=collections.Counter(k[1] for k,_,_ in bad); print(c.most_common(20))
    for b in bad[:12]: print(b)
    shutil.rmtree(base)
