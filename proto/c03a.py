import itertools, os, subprocess, sys, tempfile, shutil, collections, re
from multiprocessing import Pool
ASL='/tmp/bt/asl'
doc=open('/repo/doc/pseudo-instructions-and-integer-syntax.md').read()
m=re.search(r'#### Instructions that are always available\s*\n\s*\n> (.*?)\n\n',doc,re.S)
OPS=re.findall(r'`([^`]+)`',m.group(1))
TOK=['','0','1','-1','65536','2147483648','1.5','"s"',"''",'x','$','?']
CPU=sys.argv[1]; MAXAR=int(sys.argv[2])
base=tempfile.mkdtemp(dir='/dev/shm')
CLOSE={'MACRO':'endm','IRP':'endm','IRPC':'endm','IRPN':'endm','REPT':'endm','WHILE':'endm','IF':'endif','IFDEF':'endif','IFNDEF':'endif','IFB':'endif','IFNB':'endif','IFUSED':'endif','IFNUSED':'endif','IFEXIST':'endif','IFNEXIST':'endif','SWITCH':'endcase','SECTION':'endsection','STRUCT':'endstruct','STRUC':'endstruct','UNION':'endunion','SAVE':'restore','PHASE':'dephase'}
def run(job):
    op,args,lab,close=job
    d=os.path.join(base,str(os.getpid())); os.makedirs(d,exist_ok=True)
    src='\tcpu %s\n%s\t%s %s\n\tnop\n'%(CPU,'lbl' if lab else '',op.lower(),','.join(args))
    if close and op in CLOSE: src+='\t%s\n'%CLOSE[op]
    open(d+'/a.asm','w').write(src)
    try:
        r=subprocess.run([ASL,'-q','a.asm'],cwd=d,stdout=subprocess.DEVNULL,stderr=subprocess.PIPE,stdin=subprocess.DEVNULL,env={'LC_ALL':'C','ASAN_OPTIONS':'detect_leaks=0:exitcode=99'},timeout=5)
    except subprocess.TimeoutExpired: return job,'HANG'
    if r.returncode<0: return job,'SIGNAL %d'%r.returncode
    if r.returncode==99:
        e=r.stderr
        m=re.search(rb'ERROR: AddressSanitizer: (\S+)',e); f=re.search(rb'#\d+ \S+ in (\S+) /repo/(\S+)',e)
        return job,'ASAN %s %s'%(m.group(1).decode() if m else '?', (f.group(1)+b'@'+f.group(2)).decode() if f else '?')
    return job,'rc%d'%r.returncode
if __name__=='__main__':
    print(len(OPS),'ops',OPS[:80])
    jobs=[]
    for op in OPS:
        if op in ('READ','='): continue
        for ar in range(0,MAXAR+1):
            for args in itertools.product(TOK,repeat=ar):
                for lab in (0,1):
                    for close in ((0,1) if op in CLOSE else (0,)):
                        jobs.append((op,args,lab,close))
    print(len(jobs),'jobs')
    with Pool(16) as p: rs=p.map(run,jobs,chunksize=50)
    c=collections.Counter(r for _,r in rs)
    for k,v in c.most_common(): print(v,k)
    sh=collections.Counter()
    for j,r in rs:
        if not r.startswith('rc') and sh[r]<3: sh[r]+=1; print(j,r)
    shutil.rmtree(base)
