"""C20 - diagnostics point at the offending source position.

The generator plants self-contained faulty lines at known positions inside nesting shapes (main file, INCLUDE, macro call,
REPT, IRP, WHILE up to depth 3), with continuation lines, and predicts from the structure alone the position text
(native: file(line) + NAME(bodyline) per expansion level, an include file restarting the chain; GNU: file:line of the
innermost file plus the 'In file included from' chain).  Oracle: the multiset of positions named on the error channel equals
the multiset of planted positions - no error-free line is named, no planted fault is missed.  EXPECT/ENDEXPECT: every
ordered announcement list x every provoked subset.
"""
import itertools, re
from .. import core

ID = 'C20'
LEVEL = 'model_checking'
VARIANTS = ['plain']
CHUNK = 8
ENGINE = 'history-explorer'
TECHNIQUE = 'exhaustive nesting shapes x fault kinds x positions x option sets executed on the real assembler; reported positions compared as multisets with planted positions'
LEVEL_TEXT = ('All nesting shapes of depth <= 3 (quick) / 4 (thorough) over {INCLUDE, macro call, REPT, IRP, WHILE} x 3 fault kinds x 3 positions in the '
              'innermost body x 4 continuation layouts, each followed by a second planted fault behind the construct, in native and -gnuerrors format '
              'with -x levels, -n and -E targets; undefined-symbol faults (reported in the last pass) separately; and every ordered EXPECT list over '
              '3 message numbers x every provoked subset.  The multiset of reported positions must equal the planted one.'
              ' Shapes over INCLUDE/macro to depth 3 are repeated with the faulty statement on the unterminated last line of its file and with long include file names.'
              ' Include and macro chains of 10..150 levels and the console listing (-l) combined with a separate error channel are enumerated.'
              ' Main and include file names of 5..36 characters are crossed with line numbers of one, two and three digits in both formats.')
LEVEL_NOTE = ('Trusted: the position predictor (format facts from the manual and calibrated spacing-tolerant parser: only (file,line) and '
              '(construct, body line) pairs are compared, not iteration counters or IRP argument text).')
RULE = 'nesting shape x fault x position x options; non-trivial = all'
BOUNDS = {'quick': 'depth<=3', 'thorough': 'depth<=4'}
ASSUMPTIONS = ['a repetition is named at the line of its ENDM, a macro at the line of its call', 'for continuation lines the last physical line is named']

KINDS = ['INC', 'MAC', 'REPT', 'IRP', 'WHILE']
FAULTS = {'unknown': ('\tfoo', 'unknown'), 'range': ('\tlda #300', 'range'), 'argcnt': ('\tlda #1,2,3', 'operand')}
CONT = ['none', 'cont2', 'cont3', 'before']


def fault_lines(kind, cont):
    """lines of the faulty statement; the reported line is the LAST physical line"""
    txt = FAULTS[kind][0]
    if cont == 'none' or cont == 'before':
        return [txt]
    op, _, arg = txt.strip().partition(' ')
    if not arg:
        return ['\t' + op + ' \\', '\t  ']if False else ['\t\\', '\t' + op] if cont == 'cont2' else ['\t\\', '\t\\', '\t' + op]
    if cont == 'cont2':
        return ['\t' + op + ' \\', '\t  ' + arg]
    return ['\t' + op + ' \\', '\t  \\', '\t  ' + arg]


def build(shape, kind, pos, cont, nonl=False, longnames=False, mainname='main.asm', pad=0, inclen=0):
    """returns (files, expected) where expected = list of (includechain, file, line, constructs[(NAME, bodyline)], mult)"""
    files = {}
    counter = [0]
    predef = []

    def body(level):
        # returns (lines, faults) ; faults = list of (line index 1-based in these lines, desc)
        if level == len(shape):
            lines = ['\tnop', '\tnop', '\tnop']
            fl = fault_lines(kind, cont)
            if cont == 'before':
                # a continued, correct statement directly before the faulty line
                fl = ['\tlda \\', '\t  #1'] + fl
            lines[pos:pos + 1] = fl
            return lines, [(pos + len(fl), None)]
        k = shape[level]
        inner, ifaults = body(level + 1)
        counter[0] += 1
        n = counter[0]
        if k == 'INC':
            name = ('i%d.inc' if not longnames else 'include_file_with_a_long_name_%d.inc') % n
            if inclen:
                name = 'i' * (inclen - 5) + '%d.inc' % n
            files[name] = '\n'.join(inner) + ('' if nonl else '\n')        # nonl: the last line of the file has no line end
            return ['\tnop', '\tinclude "%s"' % name, '\tnop'], [(2, ('INC', name, ifaults))]
        if k == 'MAC':
            predef.append(['m%d\tmacro' % n] + inner + ['\tendm'])
            return ['\tnop', '\tm%d' % n, '\tnop'], [(2, ('MAC', 'M%d' % n, ifaults))]
        if k == 'REPT':
            return ['\trept 2'] + inner + ['\tendm', '\tnop'], [(len(inner) + 2, ('REPT', 'REPT', ifaults))]
        if k == 'IRP':
            return ['\tirp q%d,1,2' % n] + inner + ['\tendm', '\tnop'], [(len(inner) + 2, ('IRP', 'IRP', ifaults))]
        if k == 'WHILE':
            return ['w%d\tset 0' % n, '\twhile w%d<2' % n] + inner + ['w%d\tset w%d+1' % (n, n), '\tendm', '\tnop'], [(len(inner) + 4, ('WHILE', 'WHILE', ifaults))]
    top, faults = body(0)
    pre = [l for m in predef for l in m]
    tail = ['\tnop', FAULTS[kind][0], '\tnop']       # a second fault behind the construct: line counting must have recovered
    if nonl:
        tail = tail[:2]                               # ... which is then the last, unterminated line of the main file
    pre = ['\tnop'] * pad + pre                   # pad: pushes every position in the main file to a longer line number
    main = ['\tcpu 6502'] + pre + top + tail
    files[mainname] = '\n'.join(main) + ('' if nonl else '\n')
    exps = []

    def walk(incchain, curfile, off, faults, cons, mult, first_line_in_file):
        """first_line_in_file: position in `curfile` of the outermost construct (None while directly in the file)"""
        for line, desc in faults:
            if not cons:
                fpos = line + off
            if desc is None:
                if cons:
                    exps.append((incchain, curfile, first_line_in_file, cons + [line], mult))
                else:
                    exps.append((incchain, curfile, line + off, [], mult))
                continue
            k, name, sub = desc
            if k == 'INC':
                where = first_line_in_file if cons else line + off
                walk(incchain + [(curfile, where)], name, 0, sub, [], mult, None)
            else:
                m2 = mult * (1 if k == 'MAC' else 2)
                if cons:
                    walk(incchain, curfile, 0, sub, cons + [line, name], m2, first_line_in_file)
                else:
                    walk(incchain, curfile, 0, sub, [name], m2, line + off)
    walk([], mainname, 1 + len(pre), faults, [], 1, None)
    exps.append(([], mainname, 1 + len(pre) + len(top) + 2, [], 1))
    return files, exps


def norm_expected(e):
    inc, f, line, cons, mult = e
    # cons = [NAME, bodyline, NAME2, bodyline2, ...] (first NAME's body line follows it)
    pairs = []
    i = 0
    while i < len(cons):
        pairs.append((cons[i], cons[i + 1]))
        i += 2
    return (f, line, tuple(pairs))


def parse_iters(msg):
    """the iteration each repetition level reports: 'REPT 2(3)' -> '2', 'IRP:1(2)' -> '1', 'WHILE 2/3' -> '2', macro calls -> None"""
    m = re.match(r'^> > > (\S+?)\((\d+)\)(.*?)(?::\d+)?: (?:error|warning|fatal)', msg)
    if not m:
        return None
    out = []
    for mm in re.finditer(r'(REPT|WHILE) (\d+)[(/]\d+\)?|(IRP):([^()]*)\(\d+\)|([A-Za-z][A-Za-z0-9_]*)\(\d+\)', m.group(3)):
        if mm.group(1):
            out.append((mm.group(1), mm.group(2)))
        elif mm.group(3):
            out.append(('IRP', mm.group(4)))
        else:
            out.append((mm.group(5).upper(), None))
    return (m.group(1), int(m.group(2)), tuple(out))


def expected_iters(e):
    inc, f, line, cons, mult = e
    names = [cons[i] for i in range(0, len(cons), 2)]
    opts = [(('1', '2') if n in ('REPT', 'WHILE', 'IRP') else (None,)) for n in names]
    combos = list(itertools.product(*opts))
    # repetitions OUTSIDE an include file are not part of a position inside that file: they only multiply the message
    return [(f, line, tuple(zip(names, combo))) for combo in combos] * (mult // len(combos))


def parse_native(msg):
    """'> > > main.asm(12) REPT 1(2):7: error...' -> (file, line, ((NAME, bodyline),...))"""
    m = re.match(r'^> > > (\S+?)\((\d+)\)(.*?)(?::\d+)?: (?:error|warning|fatal)', msg)
    if not m:
        return None
    rest = m.group(3)
    pairs = []
    for mm in re.finditer(r'([A-Za-z][A-Za-z0-9_]*)(?::?[^()/]*?)?(?:\((\d+)\)|/(\d+))', rest):
        pairs.append((mm.group(1).upper(), int(mm.group(2) or mm.group(3))))
    return (m.group(1), int(m.group(2)), tuple(pairs))


def subspaces(tier):
    q = tier == 'quick'
    D = 3 if q else 4
    subs = []

    def shapes():
        for k in range(0, D + 1):
            for s in itertools.product(KINDS, repeat=k):
                for kind in FAULTS:
                    for pos in (0, 1, 2):
                        for cont in CONT:
                            # continuation lines: only where the faulty line sits in a FILE (main or include); bodies of
                            # macros/repetitions are stored as logical lines, their numbering is not pinned down by the manual
                            if cont != 'none' and (kind == 'argcnt' or any(x != 'INC' for x in s)):
                                continue
                            yield {'k': 'shape', 'shape': list(s), 'fault': kind, 'pos': pos, 'cont': cont, 'opts': []}
    subs.append(('native-positions depth<=%d' % D, shapes()))

    def opts():
        OS = [['-gnuerrors'], ['-x'], ['-x', '-x'], ['-n'], ['-E', 'err.log'], ['-E', '!1'], ['-gnuerrors', '-n'], ['-x', '-n', '-E', 'err.log'],
              ['-l', '-E', 'err.log'], ['-l', '-E', '!2']]     # listing on the console, diagnostics on a channel of their own
        for k in range(0, (2 if q else 3) + 1):
            for s in itertools.product(KINDS, repeat=k):
                for o in OS:
                    for pos in (0, 2):
                        yield {'k': 'shape', 'shape': list(s), 'fault': 'unknown' if pos == 0 else 'range', 'pos': pos, 'cont': 'none', 'opts': o}
    subs.append(('option-sets depth<=2', opts()))

    def fileends():
        # the faulty statement on the last, unterminated line of its file; include files with long names (the GNU include chain is
        # assembled in a buffer sized from the names)
        for k in range(0, 4):
            for s in itertools.product(('INC', 'MAC'), repeat=k):
                for kind in ('unknown', 'range'):
                    for o in ([], ['-gnuerrors'], ['-E', 'err.log']):
                        for nonl in (0, 1):
                            for lg in (0, 1):
                                if nonl or lg:
                                    yield {'k': 'shape', 'shape': list(s), 'fault': kind, 'pos': 2, 'cont': 'none', 'opts': o, 'nonl': bool(nonl), 'long': bool(lg)}
    subs.append(('file-ends-and-long-include-names', fileends()))

    def namelens():
        # the position text is assembled in buffers sized from the file name and the digits of the line number: every name length
        # 5..36 x line numbers of one, two and three digits, directly in the main file, in an include of the same name length, in a macro
        for n in range(5, 37):
            for pad in (0, 8, 100):
                for s in ([], ['INC'], ['MAC'], ['INC', 'INC']):
                    for o in ([], ['-gnuerrors']):
                        yield {'k': 'shape', 'shape': s, 'fault': 'unknown', 'pos': 2, 'cont': 'none', 'opts': o,
                               'main': 'm' * (n - 4) + '.asm', 'pad': pad, 'inclen': n}
    subs.append(('name-lengths x line-number-digits', namelens()))

    def deep():
        # long nesting chains: the position text grows with the depth and has no fixed maximum
        for kindn in ('INC', 'MAC'):       # (repetitions multiply: two iterations per level)
            for n in (10, 30, 40, 60, 100, 150):
                for kind in ('unknown', 'range'):
                    for o in ([], ['-gnuerrors'], ['-E', 'err.log'], ['-x', '-x']):
                        yield {'k': 'shape', 'shape': [kindn] * n, 'fault': kind, 'pos': 2, 'cont': 'none', 'opts': o}
    subs.append(('deep-chains', deep()))

    # several sources in one run, a faulty line in each: every message reaches the chosen channel with its own file and line
    subs.append(('several-sources', [{'k': 'multi', 'n': n, 'opts': o, 'kind': kind} for n in (2, 3) for kind in ('unknown', 'range', 'warn')
                                     for o in ([], ['-gnuerrors'], ['-E', 'err.log'], ['-E', 'err.log', '-gnuerrors'], ['-E', '!1'], ['-x', '-E', 'err.log'])]))

    def undef():
        for k in range(0, D + 1):
            for s in itertools.product(KINDS, repeat=k):
                yield {'k': 'undef', 'shape': list(s), 'pos': 1}
    subs.append(('undefined-symbol (last pass)', undef()))
    nums = [1320, 1200, 1110]     # range overflow, unknown instruction, wrong number of operands (pass-1 errors; last-pass-only messages would be cut off by them)

    def expects():
        for r in range(0, len(nums) + 1):
            for ann in itertools.permutations(nums, r):
                for pr in range(0, len(nums) + 1):
                    for prov in itertools.combinations(nums, pr):
                        yield {'k': 'expect', 'ann': list(ann), 'prov': list(prov), 'opts': []}
    subs.append(('expect-endexpect', expects()))
    return subs


def shp(shape, sep):
    if len(shape) > 6 and len(set(shape)) == 1:
        return '%sx%d' % (shape[0], len(shape))
    return sep.join(shape) or 'main'


def describe(case):
    if case['k'] == 'multi':
        return case
    if case['k'] == 'expect':
        return 'expect %s ; provoked %s' % (case['ann'], case['prov'])
    return '%s fault %s pos %s cont %s opts %s%s%s' % (shp(case['shape'], '>'), case.get('fault', 'undef'), case['pos'], case.get('cont'), case.get('opts'),
                                                   ' (files end without newline)' if case.get('nonl') else '', ' (long include names)' if case.get('long') else '') + \
        (' main %s, %d filler lines, include names of %d characters' % (case['main'], case['pad'], case['inclen']) if case.get('main') else '')


def ev_multi(case):
    core.fresh()
    stmt = {'unknown': '\tfoo', 'range': '\tlda #1000', 'warn': '\twarning "w"'}[case['kind']]
    want = []
    names = []
    for i in range(case['n']):
        lines = ['\tcpu 6502'] + ['\tnop'] * (i + 1) + [stmt, '\tnop']
        core.put('s%d.asm' % i, '\n'.join(lines) + '\n')
        names.append('s%d.asm' % i)
        want.append(('s%d.asm' % i, i + 3))
    o = core.run('asl', ['-q'] + case['opts'] + names)
    d = 'asl %s %s  (%s on line i+3 of source i)' % (' '.join(case['opts']), ' '.join(names), stmt.strip())
    ck = core.crashkind(o)
    if ck:
        return core.R(False, ck, 'crash/' + ck, '%s on %s' % (ck, d))
    opts = case['opts']
    if '-E' in opts:
        t = opts[opts.index('-E') + 1]
        ch = o.out.decode('latin-1') if t == '!1' else (core.get(t) or b'').decode('latin-1')
    else:
        ch = o.err.decode('latin-1')
    got = sorted(set((m.group(1), int(m.group(2))) for m in re.finditer(r'(?m)^(?:> > > )?(s\d\.asm)[(:](\d+)', ch)))
    if got != sorted(want):
        return core.R(False, 'multi', 'several-sources/%s' % ('+'.join(x for x in opts if x.startswith('-')) or 'default'), 'positions named %s, planted %s on %s' % (got, sorted(want), d))
    return core.R(True, 'multi-ok', states=['multi:%d:%s' % (case['n'], ' '.join(opts))])


def evaluate(case):
    if case['k'] == 'multi':
        return ev_multi(case)
    if case['k'] == 'expect':
        return ev_expect(case)
    if case['k'] == 'undef':
        FAULTS['undef'] = ('\tlda nosuchsym', 'undef')
        files, exps = build(case['shape'], 'undef', case['pos'], 'none')
        opts = []
    else:
        files, exps = build(case['shape'], case['fault'], case['pos'], case['cont'], case.get('nonl', False), case.get('long', False),
                            case.get('main', 'main.asm'), case.get('pad', 0), case.get('inclen', 0))
        opts = case['opts']
    core.fresh()
    for n, t in files.items():
        core.put(n, t)
    o = core.run('asl', ['-q'] + opts + [case.get('main', 'main.asm')])
    d = describe(case)
    ck = core.crashkind(o)
    if ck:
        return core.R(False, ck, 'crash/' + ck, '%s on %s' % (ck, d))
    if '-E' in opts:
        t = opts[opts.index('-E') + 1]
        ch = o.out.decode('latin-1') if t == '!1' else o.err.decode('latin-1') if t == '!2' else (core.get(t) or b'').decode('latin-1')
    else:
        ch = o.err.decode('latin-1')
    want = []
    for e in exps:
        want += [e] * e[4]
    sg = '%s/%s' % (shp(case['shape'], '+'), case.get('fault', 'undef'))
    if '-gnuerrors' in opts:
        got = []
        inc = []
        for l in re.split(r'[\r\n]', ch):
            m = re.match(r'^(?:In file included from|\s+from) (\S+?):(\d+)[:,]', l)
            if m:
                inc.append((m.group(1), int(m.group(2))))
                continue
            m = re.match(r'^(\S+?):(\d+)(?::\d+)?(?: #\d+)?: ', l)
            if m:
                got.append((tuple(inc), m.group(1), int(m.group(2))))
                inc = []
        wantg = sorted((tuple(reversed(e[0])), e[1], e[2]) for e in want)   # innermost includer first, like GCC
        if sorted(got) != wantg:
            return core.R(False, 'gnu-position', 'gnu/' + sg, 'GNU positions %s, planted %s on %s' % (sorted(got)[:4], wantg[:4], d))
        return core.R(True, 'gnu-ok', states=['g:' + sg])
    msgs = [l for l in re.split(r'[\r\n]', ch) if re.match(r'^> > > \S+\(\d+\)', l)]
    got = [parse_native(m) for m in msgs]
    wantn = sorted(norm_expected(e) for e in want)
    if None in got or sorted(got) != wantn:
        missing = [w for w in wantn if w not in got][:2]
        extra = [g for g in got if g not in wantn][:2]
        return core.R(False, 'native-position', 'native/%s/%s' % (sg, case.get('cont', 'none')), 'positions named but not planted %s; planted but not named %s on %s' % (extra, missing, d))
    if o.rc != 2:
        return core.R(False, 'rc', 'rc/' + sg, 'exit status %s with planted errors on %s' % (o.rc, d))
    # which iteration of each repetition level a message names: every iteration exactly once
    goti = sorted(parse_iters(m) for m in msgs)
    wanti = sorted(x for e in exps for x in expected_iters(e))
    if goti != wanti:
        missing = [w for w in wanti if w not in goti][:2]
        extra = [g for g in goti if g not in wanti][:2]
        return core.R(False, 'native-iteration', 'native-iteration/%s' % sg, 'iterations named but not run %s; run but not named %s on %s' % (extra, missing, d))
    return core.R(True, 'positions-ok', states=['n:' + sg])


PROVOKE = {1320: '\tlda #300', 1200: '\tfoo', 1110: '\tlda #1,2,3', 1010: '\tlda nosuch%d'}


def ev_expect(case):
    ann, prov = case['ann'], case['prov']
    lines = ['\tcpu 6502']
    if ann:
        lines.append('\texpect ' + ','.join(str(n) for n in ann))
    lineof = {}
    for n in prov:
        lines.append(PROVOKE[n] % n if '%d' in PROVOKE[n] else PROVOKE[n])
        lineof[n] = len(lines)
    if ann:
        lines.append('\tendexpect')
        endline = len(lines)
    lines.append('\tnop')
    core.fresh()
    core.put('main.asm', '\n'.join(lines) + '\n')
    o = core.run('asl', ['-q', '-n', 'main.asm'])
    d = describe(case)
    ck = core.crashkind(o)
    if ck:
        return core.R(False, ck, 'crash/expect/' + ck, '%s on %s' % (ck, d))
    ch = o.err.decode('latin-1')
    got = sorted((int(m.group(1)), int(m.group(2))) for m in re.finditer(r'main\.asm\((\d+)\)[^\n]*?(?:error|warning) #(\d+)', ch))
    want = []
    visible = [n for n in prov if n not in ann]
    if 1010 in prov and any(n != 1010 for n in visible):
        # an undefined symbol is only reported in the last pass; earlier errors end assembly after pass 1
        visible = [n for n in visible if n != 1010]
    for n in visible:
        want.append((lineof[n], n))
    notocc = [n for n in ann if n not in prov]
    if 1010 in ann and 1010 in prov and any(n != 1010 for n in visible):
        notocc = notocc
    got_plain = [g for g in got if g[1] in (1320, 1200, 1110, 1010)]
    others = [g for g in got if g[1] not in (1320, 1200, 1110, 1010)]
    if sorted(got_plain) != sorted(want):
        return core.R(False, 'expect-suppression', 'expect/suppression', 'messages shown %s, model %s (announced %s provoked %s)\n%s' % (got_plain, sorted(want), ann, prov, ch[-300:]))
    # every announced message that did not occur must be reported at ENDEXPECT (one report per missing number)
    if ann and 1010 not in ann:
        if len(others) != len(notocc) or any(g[0] != endline for g in others):
            return core.R(False, 'expect-missing', 'expect/not-occurred', 'ENDEXPECT reports %s, %d announced messages did not occur (announced %s provoked %s)' % (others, len(notocc), ann, prov))
    return core.R(True, 'expect-ok', states=['e:%s:%s' % (ann, prov)])
