import itertools, os, subprocess, sys, tempfile, shutil, collections, struct
from multiprocessing import Pool
sys.path.insert(0,'/tmp/w/s')
from hexfmt import *
P2HEX='/repo/_build/p2hex'
def wfile(recs,entry=None):
    b=b'\x89\x14'
    for (cpu,seg,start,data) in recs:
        b+=bytes([cpu])+struct.pack('<IH',start,len(data))+data
    if entry is not None: b+=b'\x80'+struct.pack('<I',entry)
    return b+b'\x00TEST'
STARTS=[0,0xfff0,0xffff,0x10000,0xffff0,0x100000,0xfffff0,0x1000000]
LENS=[1,2,15,16,17,33,255,300]
FMTS=['Moto','Intel','Intel16','Intel32','MOS','Tek']
MAXA={'Moto':0xffffffff,'Intel32':0xffffffff,'Intel16':0xffff0+0xffff,'Intel':0xffff,'MOS':0xffff,'Tek':0xffff}
OPTS=[[],['-l','2'],['-l','3'],['-l','17'],['-l','32'],['-l','254'],['-M','2'],['-M','3'],['+5'],['-i','1'],['-i','2'],['-e','0x1234'],['-R','0x100'],['-a']]
base=tempfile.mkdtemp(dir='/dev/shm')
def run(case):
    fmt,start,ln,opt=case
    data=bytes((i*7+3)&0xff for i in range(ln))
    d=os.path.join(base,str(os.getpid())); os.makedirs(d,exist_ok=True)
    open(d+'/a.p','wb').write(wfile([(0x41,1,start,data)]))
    if os.path.exists(d+'/a.hex'): os.unlink(d+'/a.hex')
    r=subprocess.run([P2HEX,'-q','a.p','a.hex','-F',fmt]+opt,cwd=d,capture_output=True,env={'LC_ALL':'C'},timeout=5)
    if r.returncode!=0: return case,'rc%d %s'%(r.returncode,r.stderr.decode()[:50])
    text=open(d+'/a.hex').read()
    try:
        mem,entry,info={'Moto':dec_moto,'Intel':dec_intel,'Intel16':dec_intel,'Intel32':dec_intel,'MOS':dec_mos,'Tek':dec_tek}[fmt](text)
    except FmtErr as e: return case,'FMT '+str(e)[:40]
    except Exception as e: return case,'DECODER-CRASH %r'%e
    off=0
    if '-R' in opt: off=0x100
    if '-a' in opt: off=-start
    want={}
    over=False
    for i,x in enumerate(data):
        a=start+i+off
        if a>MAXA[fmt] or start+ln-1+off>MAXA[fmt]: over=True
        want[a]=x
    warned=b'overflow' in r.stderr
    if over:
        return case,('ok-overflow-warned' if warned else 'OVERFLOW-NOT-WARNED')
    if warned: return case,'SPURIOUS-OVERFLOW-WARNING'
    if mem!=want:
        bad=[a for a in sorted(set(mem)|set(want)) if mem.get(a)!=want.get(a)][:3]
        return case,'MEM diff %s'%[(hex(a),mem.get(a),want.get(a)) for a in bad]
    L=16
    if '-l' in opt: L=int(opt[1])&~1 if int(opt[1])>1 else 2
    return case,'ok'
if __name__=='__main__':
    cases=[(f,s,l,o) for f in FMTS for s in STARTS for l in LENS for o in OPTS]
    print(len(cases),'cases')
    with Pool(16) as p: rs=p.map(run,cases,chunksize=50)
    c=collections.Counter((cs[0],r.split(' diff')[0][:45]) for cs,r in rs)
    for k,v in sorted(c.items()): print(v,k)
    sh=collections.Counter()
    for cs,r in rs:
        k=(cs[0],r[:12])
        if not r.startswith('ok') and sh[k]<2: sh[k]+=1; print(cs,r[:160])
    shutil.rmtree(base)
