"""C12 - conditional assembly selects exactly the documented branch.

Explicit-state exploration of the conditional-assembly pushdown machine.  The reference model is a
frame stack written from the manual (IF/ELSEIF/ELSE/ENDIF, SWITCH/CASE/ELSECASE/ENDCASE); every
transition of the model graph is executed on the real assembler (history + token + probe) and the
marker bytes in the code file identify exactly which lines were assembled.
"""
import itertools
from .. import core
from ..fmt import pfile

ID = 'C12'
LEVEL = 'model_checking'
VARIANTS = ['plain']
CHUNK = 32
ENGINE = 'history-explorer'
TECHNIQUE = 'explicit-state BFS of the conditional pushdown machine, every model edge replayed on the real assembler; exhaustive token sequences'
LEVEL_TEXT = ('Every token sequence up to length 4 (quick) / 5 (thorough) over all 13 conditional tokens, and every transition of the '
              'reference pushdown machine reachable within nesting depth 3 / 4 (fixpoint of a breadth-first search, two witness histories per state), '
              'is executed on the rebuilt assembler and the set of assembled lines, diagnostics and exit status are compared with the model; '
              'the statement\'s invariants are evaluated on every model state. Conditional logic is a small state machine, so complete '
              'transition coverage within the nesting bound is the right level.'
              ' The skipped-statement sub-space contains macro definitions (exported, with invalid headers) and compares the -M file.'
              ' Added in the last round: IFUSED in front of the first reference in a two-pass source.')
LEVEL_NOTE = ('Trusted: the Python reference model written from the manual, marker-byte observation through the independent code-file reader. '
              'Bounds: nesting <= 4, sequences <= 5, fixed condition-form table; values inside conditions come from small alphabets.')
RULE = ('(a) every token sequence up to the length bound over a 13-token alphabet; (b) breadth-first search of the '
        'reference pushdown machine to a fixpoint for the nesting bound, every token applied in every reachable model '
        'state from two witness histories; (c) condition-form products. A case is non-trivial when the model predicts '
        'a well-formed program (marker comparison) or the case belongs to (b)/(c).')
BOUNDS = {'quick': 'sequences<=4, BFS nesting<=3, condition forms', 'thorough': 'sequences<=5, BFS nesting<=4, condition forms'}
ASSUMPTIONS = ['marker byte i is emitted by "db i" on the 8080 target iff line i is assembled',
               'after the first misplaced conditional statement only "error reported, exit 2, no code file, no crash" is claimed']

TOK = ['IF0', 'IF1', 'ELSEIF0', 'ELSEIF1', 'ELSE', 'ENDIF', 'SWITCH', 'CASEhit', 'CASEmiss', 'CASEmulti',
       'ELSECASE', 'ENDCASE', 'EMIT']
SRC = {'IF0': 'if 0', 'IF1': 'if 1', 'ELSEIF0': 'elseif 0', 'ELSEIF1': 'elseif 1', 'ELSE': 'else', 'ENDIF': 'endif',
       'SWITCH': 'switch 5', 'CASEhit': 'case 5', 'CASEmiss': 'case 4', 'CASEmulti': 'case 3,5,7',
       'ELSECASE': 'elsecase', 'ENDCASE': 'endcase'}


# ---- reference model -------------------------------------------------------------------------

def step(state, t):
    """state = (frames, active); frame = (kind, phase, any, enc). Returns new state or None (ill-formed)."""
    frames, active = state
    if t == 'EMIT':
        return state
    if t in ('IF0', 'IF1'):
        c = t == 'IF1'
        return frames + (('IF', 'open', c, active),), active and c
    if t in ('ELSEIF0', 'ELSEIF1', 'ELSE'):
        if not frames or frames[-1][0] != 'IF' or frames[-1][1] != 'open':
            return None
        k, ph, any_, enc = frames[-1]
        c = True if t == 'ELSE' else t == 'ELSEIF1'
        take = enc and c and not any_
        return frames[:-1] + (('IF', 'else' if t == 'ELSE' else 'open', any_ or c, enc),), take
    if t == 'ENDIF':
        if not frames or frames[-1][0] != 'IF':
            return None
        return frames[:-1], frames[-1][3]
    if t == 'SWITCH':
        return frames + (('SW', 'open', False, active),), active
    if t in ('CASEhit', 'CASEmiss', 'CASEmulti'):
        if not frames or frames[-1][0] != 'SW' or frames[-1][1] == 'elsecase':
            return None
        k, ph, any_, enc = frames[-1]
        c = t != 'CASEmiss'
        take = enc and c and not any_
        return frames[:-1] + (('SW', 'case', any_ or c, enc),), take
    if t == 'ELSECASE':
        if not frames or frames[-1][0] != 'SW' or frames[-1][1] == 'elsecase':
            return None
        k, ph, any_, enc = frames[-1]
        return frames[:-1] + (('SW', 'elsecase', True, enc),), enc and not any_
    if t == 'ENDCASE':
        if not frames or frames[-1][0] != 'SW':
            return None
        return frames[:-1], frames[-1][3]
    raise ValueError(t)


def warn_of(state, t):
    """documented 'no CASE hit' warning: ENDCASE of a frame in an assembled context with no branch taken"""
    frames, _ = state
    return 1 if t == 'ENDCASE' and frames and frames[-1][0] == 'SW' and frames[-1][3] and not frames[-1][2] else 0


INIT = ((), True)


def model(seq):
    st = INIT
    out = []
    warn = 0
    for i, t in enumerate(seq):
        if t == 'EMIT':
            # note: lines between SWITCH and the first CASE are in the enclosing context's activity
            if st[1]:
                out.append(i + 1)
            continue
        warn += warn_of(st, t)
        st = step(st, t)
        if st is None:
            return None
    if st[0]:
        return None
    return out, warn


def closers(state):
    """tokens that close every open frame, an EMIT probe after each"""
    frames, _ = state
    out = []
    for f in reversed(frames):
        out += ['ENDIF' if f[0] == 'IF' else 'ENDCASE', 'EMIT']
    return out


def render(seq):
    out = ['\tcpu 8080']
    for i, t in enumerate(seq):
        out.append('\tdb %d' % ((i % 250) + 1) if t == 'EMIT' else '\t' + SRC[t])
    return '\n'.join(out) + '\n'


# ---- model graph (b) -------------------------------------------------------------------------

def bfs(maxdepth):
    """reachable model states with nesting <= maxdepth; two witness histories per state"""
    wit = {INIT: [()]}
    order = [INIT]
    edges = []
    i = 0
    while i < len(order):
        s = order[i]
        i += 1
        for t in TOK[:-1]:
            n = step(s, t)
            edges.append((s, t, n))
            if n is None or len(n[0]) > maxdepth:
                continue
            h = wit[s][0] + (t,)
            if n not in wit:
                wit[n] = [h]
                order.append(n)
            elif len(wit[n]) < 2 and h != wit[n][0]:
                wit[n].append(h)
    return wit, order, edges


def selfcheck(wit, edges):
    """the statement's invariants evaluated on every reachable model state/transition"""
    for s, t, n in edges:
        if n is None:
            continue
        fr, act = n
        # a line is assembled iff every enclosing frame's current branch is the selected one
        if act:
            assert all(f[3] for f in fr), (s, t, n)
        if t in ('ENDIF', 'ENDCASE'):
            assert act == s[0][-1][3]
        # at most one branch per frame: once 'any' is set no later branch of that frame can become active
        if t in ('ELSEIF0', 'ELSEIF1', 'ELSE', 'CASEhit', 'CASEmiss', 'CASEmulti', 'ELSECASE') and s[0][-1][2]:
            assert not act, (s, t, n)
    return True


# ---- cases -----------------------------------------------------------------------------------

def subspaces(tier):
    n = 4 if tier == 'quick' else 5
    depth = 3 if tier == 'quick' else 4
    subs = []

    def seqs():
        for k in range(1, n + 1):
            for s in itertools.product(TOK, repeat=k):
                yield {'k': 'seq', 'toks': list(s)}
    subs.append(('a:all-token-sequences<=%d' % n, seqs()))

    wit, order, edges = bfs(depth)
    selfcheck(wit, edges)

    def trans():
        for s in order:
            for h in wit[s]:
                for t in TOK[:-1]:
                    yield {'k': 'edge', 'hist': list(h), 'tok': t, 'state': repr(s)}
    subs.append(('b:model-graph-nesting<=%d(%d states,%d edges)' % (depth, len(order), len(edges)), trans()))
    subs.append(('c:condition-forms', list(condforms())))
    subs.append(('d:skipped-statement-has-no-effect', list(skipforms())))
    return subs


def describe(case):
    if case['k'] == 'seq':
        return ' / '.join(SRC.get(t, 'db i') for t in case['toks'])
    if case['k'] == 'edge':
        return 'after [%s] apply %s' % (' / '.join(SRC.get(t, 'db i') for t in case['hist']), SRC[case['tok']])
    return case


def run_seq(seq, tag):
    d = core.fresh()
    core.put('a.asm', render(seq))
    o = core.run('asl', ['-q', 'a.asm'], timeout=10)
    m = model(seq)
    ck = core.crashkind(o)
    p = core.get('a.p')
    if ck:
        return core.R(False, ck, 'crash/%s/%s' % (ck, first_bad(seq)), '%s on: %s' % (ck, ' / '.join(seq)))
    if m is None:
        if o.rc != 2 or p is not None:
            return core.R(False, 'illformed-accepted', 'illformed-accepted', 'ill-formed sequence gave rc=%s codefile=%s: %s' % (o.rc, p is not None, ' / '.join(seq)))
        return core.R(True, 'rejected', nontrivial=(tag != 'seq'))
    want, warn = m
    if o.rc != 0 or p is None:
        return core.R(False, 'wellformed-rejected', 'wellformed-rejected', 'rc=%s %s on: %s' % (o.rc, (o.out + o.err)[-200:].decode('latin-1'), ' / '.join(seq)))
    got = [b for r in pfile.data_records(pfile.read(p)) for b in r.data]
    want = [((i - 1) % 250) + 1 for i in want]
    if got != want:
        return core.R(False, 'markers', 'markers/' + first_bad(seq), 'assembled lines %s, model %s on: %s' % (got, want, ' / '.join(seq)))
    nw = (o.out + o.err).decode('latin-1').count('warning')
    if nw != warn:
        skipped = any_skipped_switch(seq)
        return core.R(False, 'warning-count', 'warning/' + ('no-case-hit-in-skipped-branch' if skipped and nw > warn else 'other'),
                      'warnings got %d model %d on: %s' % (nw, warn, ' / '.join(seq)))
    return core.R(True, 'markers-ok', states=['|'.join(seq)])


def first_bad(seq):
    st = INIT
    for t in seq:
        n = step(st, t)
        if n is None:
            return 'first-misplaced-' + t
        st = n
    return 'wellformed'


def any_skipped_switch(seq):
    st = INIT
    for t in seq:
        if t == 'SWITCH' and not st[1]:
            return True
        st = step(st, t)
        if st is None:
            return False
    return False


def evaluate(case):
    if case['k'] == 'seq':
        return run_seq(case['toks'], 'seq')
    if case['k'] == 'edge':
        st = INIT
        for t in case['hist']:
            st = step(st, t)
        n = step(st, case['tok'])
        seq = list(case['hist'])
        # probes between history tokens make hidden divergence visible as early as possible
        full = []
        for t in seq:
            full += [t, 'EMIT']
        full += [case['tok'], 'EMIT']
        if n is not None:
            full += closers(n)
        r = run_seq(full, 'edge')
        r['states'] = [case['state'], repr(n)]
        return r
    if case['k'] == 'skip':
        return eval_skip(case)
    return eval_cond(case)


# ---- (c) condition forms ---------------------------------------------------------------------

def condforms():
    # each: source lines before, the IF line, expected branch (1 = IF branch, 2 = ELSE branch)
    def lad(pre, cond, want, files=None, args=None, post=None):
        return {'k': 'cond', 'pre': pre, 'cond': cond, 'want': want, 'files': files or {}, 'post': post or []}
    out = []
    for neg, kw in ((0, 'ifdef'), (1, 'ifndef')):
        out.append(lad(['sym equ 5'], kw + ' sym', 1 if not neg else 2))
        out.append(lad(['sym set 5'], kw + ' sym', 1 if not neg else 2))
        out.append(lad(['sym:'], kw + ' sym', 1 if not neg else 2))
        # a symbol is defined whatever the type of its value (string, float, register alias)
        out.append(lad(['sym equ "text"'], kw + ' sym', 1 if not neg else 2))
        out.append(lad(['sym set "text"'], kw + ' sym', 1 if not neg else 2))
        out.append(lad(['sym equ 2.5'], kw + ' sym', 1 if not neg else 2))
        out.append(lad(['sym set 2.5'], kw + ' sym', 1 if not neg else 2))
        out.append(lad(['sym equ ""'], kw + ' sym', 1 if not neg else 2))
        out.append(lad([], kw + ' sym', 2 if not neg else 1))
        out.append(lad(['other equ 1'], kw + ' sym', 2 if not neg else 1))
    for neg, kw in ((0, 'ifused'), (1, 'ifnused')):
        out.append(lad(['sym equ 5', ' db sym'], kw + ' sym', 1 if not neg else 2))
        out.append(lad(['sym equ 5', 'unrelated equ 3'], kw + ' sym', 2 if not neg else 1))
        out.append(lad(['sym equ 5', 'oth equ sym+1'], kw + ' sym', 1 if not neg else 2))
        # referenced BEFORE its definition (a forward reference, so in an earlier pass and in this one), queried after it
        out.append(lad([' db sym', 'sym equ 5'], kw + ' sym', 1 if not neg else 2))
        out.append(lad([' db sym', 'sym equ 5', ' db sym'], kw + ' sym', 1 if not neg else 2))
        out.append(lad(['oth equ sym+1', 'sym equ 5'], kw + ' sym', 1 if not neg else 2))
        # defined, but referenced only BEHIND the query, in a source that needs a second pass: "used" is what the current pass
        # has seen up to here, not what an earlier pass saw further down
        out.append(lad(['sym equ 5'], kw + ' sym', 2 if not neg else 1, post=[' db sym', ' jmp fwd', 'fwd:']))
        out.append(lad(['sym equ 5', ' jmp fwd'], kw + ' sym', 2 if not neg else 1, post=[' db sym', 'fwd:']))
        out.append(lad(['sym equ 5'], kw + ' sym', 2 if not neg else 1, post=['oth equ sym+1', ' jmp fwd', ' db oth', 'fwd:']))
    for neg, kw in ((0, 'ifexist'), (1, 'ifnexist')):
        out.append(lad([], kw + ' "there.inc"', 1 if not neg else 2, files={'there.inc': '; x\n'}))
        out.append(lad([], kw + ' "absent.inc"', 2 if not neg else 1))
        out.append(lad([], kw + ' "sub/there.inc"', 1 if not neg else 2, files={'sub/there.inc': '; x\n'}))
    # IF with integer / float / string comparisons
    for e, w in (('1', 1), ('0', 2), ('-1', 1), ('5-5', 2), ('2>1', 1), ('1>2', 2), ('1.5>1.0', 1), ('1.5<1.0', 2),
                 ('"a"<"b"', 1), ('"a"="b"', 2), ('"ab"="ab"', 1), ('(1=1)&&(2=3)', 2), ('(1=1)||(2=3)', 1), ('256', 1),
                 ('2147483647', 1), ('~~1', 2), ('~~0', 1)):
        out.append(lad([], 'if ' + e, w))
    for pre, e, w in ((['s equ "text"'], 'defined(s)', 1), (['s set 2.5'], 'defined(s)', 1), (['s equ 5'], 'defined(s)', 1), ([], 'defined(s)', 2),
                      (['s equ "text"'], '~~defined(s)', 2), (['s equ "text"'], 's="text"', 1), (['s equ 2.5'], 's>2.0', 1)):
        out.append(lad(pre, 'if ' + e, w))
    # IFB / IFNB over every argument list of length 0..4 over {blank, non-blank}, through macro parameters
    for n in range(0, 5):
        for bits in itertools.product((0, 1), repeat=n):
            args = ','.join('x' if b else '' for b in bits)
            blank = not any(bits)
            out.append({'k': 'ifb', 'n': n, 'args': args, 'kw': 'ifb', 'want': 1 if blank else 2})
            out.append({'k': 'ifb', 'n': n, 'args': args, 'kw': 'ifnb', 'want': 2 if blank else 1})
    # SWITCH selectors and CASE lists: position of the match, overlaps, no match
    sels = [('5', ['4', '5', '6']), ('-1', ['0', '-1', '1']), ('"b"', ['"a"', '"b"', '"c"']), ('2.5', ['1.5', '2.5', '3.5'])]
    for sel, vals in sels:
        hit = vals[1]
        miss = [vals[0], vals[2]]
        lists = [[hit], [miss[0]], [miss[0], hit], [hit, miss[0]], [miss[0], miss[1]], [miss[0], hit, miss[1]]]
        for l1 in lists:
            for l2 in lists:
                for has_else in (0, 1):
                    out.append({'k': 'switch', 'sel': sel, 'cases': [l1, l2], 'else': has_else, 'hit': hit})
    return out


def eval_cond(case):
    d = core.fresh()
    if case['k'] == 'cond':
        for n, c in case['files'].items():
            core.put(n, c)
        src = ['\tcpu 8080'] + [(l if not l.startswith(' ') else '\t' + l.strip()) for l in case['pre']] + \
              ['\t' + case['cond'], '\tdb 1', '\telse', '\tdb 2', '\tendif', '\tdb 9'] + \
              [(l if not l.startswith(' ') else '\t' + l.strip()) for l in case.get('post', [])]
        want = [5] * sum(1 for l in case['pre'] if l.strip() == 'db sym') + [case['want'], 9]
        want = ([0xc3, None, None] if ' jmp fwd' in case['pre'] else []) + want
        for l in case.get('post', []):
            want += {'db sym': [5], 'jmp fwd': [0xc3, None, None], 'db oth': [6]}.get(l.strip(), [])
        wantwarn = 0
    elif case['k'] == 'ifb':
        n = case['n']
        params = ','.join('p%d' % i for i in range(n))
        refs = ','.join('p%d' % i for i in range(n))
        # the macro forwards its parameters textually into the IFB statement
        src = ['\tcpu 8080', 'm\tmacro ' + params, '\t%s %s' % (case['kw'], refs), '\tdb 1', '\telse', '\tdb 2', '\tendif', '\tendm',
               '\tm ' + case['args'], '\tdb 9']
        want = [case['want'], 9]
        wantwarn = 0
    else:
        src = ['\tcpu 8080', '\tswitch ' + case['sel']]
        want = []
        taken = False
        for i, l in enumerate(case['cases']):
            src += ['\tcase ' + ','.join(l), '\tdb %d' % (i + 1)]
            if not taken and case['hit'] in l:
                want.append(i + 1)
                taken = True
        if case['else']:
            src += ['\telsecase', '\tdb 7']
            if not taken:
                want.append(7)
        wantwarn = 0 if (taken or case['else']) else 1
        src += ['\tendcase', '\tdb 9']
        want.append(9)
    core.put('a.asm', '\n'.join(src) + '\n')
    o = core.run('asl', ['-q', 'a.asm'])
    ck = core.crashkind(o)
    if ck:
        return core.R(False, ck, 'crash/cond/' + ck, '%s on %s' % (ck, src))
    p = core.get('a.p')
    txt = (o.out + o.err).decode('latin-1')
    if o.rc != 0 or p is None:
        return core.R(False, 'cond-rejected', 'cond/rejected/' + case['k'], 'rc=%s %s on %s' % (o.rc, txt[-200:], src))
    got = [b for r in pfile.data_records(pfile.read(p)) for b in r.data]
    if len(got) == len(want):
        got = [g if w is not None else None for g, w in zip(got, want)]       # (None: the two address bytes of a jump)
    if got != want:
        sig = 'cond/%s/%s' % (case['k'], case.get('kw', case.get('cond', case.get('sel', ''))).split()[0])
        return core.R(False, 'cond-branch', sig, 'assembled %s model %s on %s' % (got, want, src))
    if txt.count('warning') != wantwarn:
        return core.R(False, 'cond-warning', 'cond/warning/' + case['k'], 'warnings %d model %d on %s' % (txt.count('warning'), wantwarn, src))
    return core.R(True, 'cond-ok', states=['cond:' + '\n'.join(src)])


# ---- (d) statements in non-selected branches have no effect (differential oracle) -----------------

SKIP_CTX = [
    ['if 0', 'X', 'endif'],
    ['if 1', 'else', 'X', 'endif'],
    ['if 0', 'elseif 0', 'X', 'endif'],
    ['if 1', 'elseif 1', 'X', 'endif'],
    ['if 0', 'elseif 1', 'else', 'X', 'endif'],
    ['if 0', 'if 1', 'X', 'endif', 'endif'],
    ['if 0', 'if 1', 'else', 'X', 'endif', 'endif'],
    ['if 1', 'else', 'if 1', 'X', 'endif', 'endif'],
    ['switch 5', 'case 4', 'X', 'elsecase', 'endcase'],
    ['switch 5', 'case 5', 'case 5', 'X', 'endcase'],
    ['switch 5', 'case 5', 'elsecase', 'X', 'endcase'],
    ['switch 5', 'case 5', 'case 6', 'X', 'elsecase', 'endcase'],
    ['if 0', 'switch 5', 'case 5', 'X', 'endcase', 'endif'],
    ['if 0', 'switch 5', 'elsecase', 'X', 'endcase', 'endif'],
    ['ifdef nosuch', 'X', 'endif'],
    ['ifndef nosuch', 'else', 'X', 'endif'],
    ['ifb x', 'X', 'endif'],
    ['ifnexist "absent.inc"', 'else', 'X', 'endif'],
]
SKIP_STMT = [
    ['sym:\tnop'], ['sym:'], ['sym\tequ 1'], ['sym\tset 1'], ['sym\t= 1'], ['sym\t:= 1'], ['sym:\tmac'], ['sym\tmac'], ['\tmac'],
    ['sym:\tdb 77'], ['\tdb 77'], ['\torg 100h'], ['\tcpu 8085'], ['\tcharset \'a\',1'], ['\tradix 16'], ['\tphase 200h'],
    ['\tsegment data'], ['\terror "x"'], ['\twarning "x"'], ['\tfatal "x"'], ['\tinclude "def.inc"'], ['\tinclude "absent.inc"'],
    ['sym\tmacro', '\tdb 5', '\tendm'], ['mac\tmacro', '\tdb 6', '\tendm'], ['\tsection s', 'sym:', '\tpublic sym', '\tendsection'],
    ['sym\tstruct', 'f\tdb ?', 'sym\tendstruct'], ['\tsave'], ['\trestore'], ['\tds 3'], ['\talign 16'], ['sym\tlabel 5'],
    ['\tpushv s,other'], ['\tpopv s,other'], ['other\tset 9'], ['sym\tfunction x,x+1'], ['\trept 2', '\tdb 8', '\tendm'],
    ['\tirp q,1,2', '\tdb q', '\tendm'], ['\tnosuchinstruction'], ['\tdb 300'], ['\tdb undefinedsym'], ['\tend'], ['\trelaxed on'],
    ['\tread sym'], ['\texitm'], ['\tshift'], ['\tendm'], ['\tendsection'], ['\tendstruct'], ['\tdephase'],
    # macro definitions: exported ones go to the -M file, headers are checked when a macro is defined
    ['xm\tmacro {export}', '\tdb 5', '\tendm'], ['xm\tmacro {nosuchoption}', '\tendm'], ['xm\tmacro a,1x', '\tendm'], ['1x\tmacro', '\tendm'],
    ['xm\tmacro {export}', 'ym\tmacro {export}', '\tendm', '\tendm'], ['xm\tmacro {expand},{noexpand}', '\tendm'],
]
SKIP_TAIL = ['\tifdef sym', '\tdb 1', '\telse', '\tdb 2', '\tendif', '\tdb MOMCPU&255', '\tdb \'a\'', '\tdb 10', '\tdb other', 'here:\tdw here',
             '\tmac', '\tdb (5+3)*2']
SKIP_HEAD = ['\tcpu 8080', 'mac\tmacro', '\tdb 4', '\tendm', 'other\tset 3']


def skipforms():
    for ci, ctx in enumerate(SKIP_CTX):
        for si, st in enumerate(SKIP_STMT):
            yield {'k': 'skip', 'ctx': ci, 'stmt': si}


def eval_skip(case):
    ctx, st = SKIP_CTX[case['ctx']], SKIP_STMT[case['stmt']]
    res = []
    for with_x in (True, False):
        body = []
        for l in ctx:
            if l == 'X':
                body += st if with_x else []
            else:
                body.append('\t' + l)
        core.fresh()
        core.put('def.inc', 'sym\tequ 7\n')
        core.put('a.asm', '\n'.join(SKIP_HEAD + body + SKIP_TAIL) + '\n')
        o = core.run('asl', ['-q', '-M', 'a.asm'])
        ck = core.crashkind(o)
        if ck:
            return core.R(False, ck, 'skip/crash/' + ck, '%s on skipped %s in %s' % (ck, st, ctx), transitions=2)
        res.append((o.rc, core.get('a.p'), len((o.out + o.err).strip().split(b'\n')) if (o.out + o.err).strip() else 0, core.get('a.mac')))
    if res[0] != res[1] or res[1][0] != 0:
        what = 'rc' if res[0][0] != res[1][0] else 'code' if res[0][1] != res[1][1] else 'diagnostics' if res[0][2] != res[1][2] else 'exported-macros'
        return core.R(False, 'skip-effect', 'skip/effect/%s/%s' % (what, st[0].strip().replace('\t', ' ')[:24]),
                      'statement %s in the non-selected branch of %s changes the result (%s): with rc=%s, without rc=%s' % (st, ctx, what, res[0][0], res[1][0]), transitions=2)
    return core.R(True, 'skip-no-effect', states=['skip:%d:%d' % (case['ctx'], case['stmt'])], transitions=2)
