"""C01 - multipass assembly ends at a fixpoint with every reference resolved.

Transition system: one PASS of the real assembler; state between passes = symbol table digest (hook H2) and
the emitted code.  For every enumerated skeleton program the whole pass path is followed through the hook trace
(H1): termination within the cap (a repeated digest with Repass set is a proven livelock), every reference in the
emitted code decoded SEQUENTIALLY by a per-target mini decoder and compared with the address the label really has
in the emitted layout, and one forced extra pass must change neither the code file nor the symbol digest.
"""
import hashlib, itertools, os
from .. import core, corpus
from ..fmt import pfile

ID = 'C01'
LEVEL = 'model_checking'
VARIANTS = ['plain']
CHUNK = 16
ENGINE = 'pass-path'
TECHNIQUE = 'exhaustive skeleton programs; the pass-to-pass transition path of the real assembler is followed via hook trace, references decoded sequentially from the code file'
LEVEL_TEXT = ('Every skeleton program over labels (alone / attached), auto-sized branches, size-dependent absolute operands, data words, an odd '
              'byte and gaps bracketing every short/long limit, with 1 label up to 3 (quick) / 4 (thorough) body items and 2 labels up to 2 / 3 '
              'items, on 68000 (PADDING on and off), 6502, 6809 and 8086, is assembled under the pass hooks: the pass path must end within 30 passes '
              '(digest repeat = proven livelock), every reference in the code file must decode to the address its label really has, and a forced '
              'extra pass must reproduce code file and symbol digest. The whole golden corpus is run with one forced extra pass.'
              ' The same skeletons with one ORG to a lower address (a later-defined label below its reference, incl. PC-relative LEA) and every program over one name defined before / inside / behind a SECTION, declared FORWARD/PUBLIC/GLOBAL or not, referenced before and after its local definition (jump, data word, absolute operand, short branch across a gap) are run with 0, 1 and 2 forced extra passes.'
              ' Label spellings `name EQU <pc>` and references `name+0`, and body-local labels that hide an outer label of the same name, are part of the skeleton and body-label sub-spaces.'
              ' The scoped programs with a local and an outer definition are repeated with the section nested two and three levels deep.')
LEVEL_NOTE = ('Trusted: per-target mini decoders (finite encoding sets typed from the ISA manuals), hook trace. Hooks H1/H2 are guarded by '
              'FLAMEWING_ASL_RELEASES_VERIF. Not covered: macros/conditionals on forward symbols, targets other than the four listed.')
RULE = 'skeleton programs enumerated canonically (labels numbered in order of definition, no adjacent gaps); non-trivial = at least one forward reference'
BOUNDS = {'quick': '1 label x <=3 items, 2 labels x <=2 items, 5 target configurations + golden corpus extra pass', 'thorough': '1 label x <=4, 2 labels x <=3'}
ASSUMPTIONS = ['a label alone on the line before, or on the line of, a padded object reads the padded address (manual, PADDING)']

MAXP = 30

# ---- targets --------------------------------------------------------------------------------------


def s8(b):
    return b - 256 if b >= 128 else b


def s16(v):
    return v - 65536 if v >= 32768 else v


class T68k(object):
    name = '68000'
    refs = ['BR', 'BSR', 'ABS', 'DATW', 'DATL', 'ADDQ']
    refs_org = ['BR', 'ABS', 'DATW', 'PCR']
    gaps = [2, 126, 128, 130]
    org = 0x7f00
    orglo = 0x7e80

    def __init__(self, pad):
        self.pad = pad
        self.name = '68000-pad%d' % pad

    def head(self):
        return ['\tcpu 68000', '\tpadding %s' % ('on' if self.pad else 'off'), '\torg $%x' % self.org]

    def src(self, kind, lab):
        return {'BR': 'bra ' + lab, 'BSR': 'bsr ' + lab, 'ABS': 'move.w %s,d0' % lab, 'DATW': 'dc.w ' + lab, 'DATL': 'dc.l ' + lab,
                'PCR': 'lea %s(pc),a0' % lab, 'ODD': 'dc.b 1', 'NOP': 'nop',
                'ADDQ': 'addq.w #%s-*,d0' % lab}[kind]        # a 3-bit immediate computed from a symbol: 1..8 bytes ahead, or a range error

    def gap(self, g):
        return 'ds.b %d' % g

    def wordsized(self, kind):
        return kind != 'ODD'

    def decode(self, mem, a, kind):
        """returns (length, referenced value or None, mask) or raises KeyError/ValueError"""
        b = mem[a]
        if kind in ('BR', 'BSR'):
            if kind == 'BR' and (b, mem[a + 1]) == (0x4e, 0x71):
                return 2, a + 2, 0xffffffff      # a branch to the next instruction is assembled as NOP
            if b != (0x60 if kind == 'BR' else 0x61):
                raise ValueError('opcode %02x' % b)
            d = mem[a + 1]
            if d not in (0, 0xff):
                return 2, (a + 2 + s8(d)) & 0xffffffff, 0xffffffff
            if d == 0:
                return 4, (a + 2 + s16((mem[a + 2] << 8) | mem[a + 3])) & 0xffffffff, 0xffffffff
            raise ValueError('bra.l on 68000')
        if kind == 'ABS':
            if (b, mem[a + 1]) == (0x30, 0x38):
                return 4, s16((mem[a + 2] << 8) | mem[a + 3]) & 0xffffffff, 0xffffffff
            if (b, mem[a + 1]) == (0x30, 0x39):
                return 6, int.from_bytes(bytes(mem[a + 2 + i] for i in range(4)), 'big'), 0xffffffff
            raise ValueError('move.w opcode')
        if kind == 'ADDQ':
            w = (b << 8) | mem[a + 1]
            if w & 0xf1ff != 0x5040:
                raise ValueError('addq.w #n,d0 opcode')
            n = (w >> 9) & 7
            return 2, (a + (n or 8)) & 0xffffffff, 0xffffffff
        if kind == 'PCR':
            if (b, mem[a + 1]) != (0x41, 0xfa):
                raise ValueError('lea d16(pc) opcode')
            return 4, (a + 2 + s16((mem[a + 2] << 8) | mem[a + 3])) & 0xffffffff, 0xffffffff
        if kind == 'DATW':
            return 2, (mem[a] << 8) | mem[a + 1], 0xffff
        if kind == 'DATL':
            return 4, int.from_bytes(bytes(mem[a + i] for i in range(4)), 'big'), 0xffffffff
        if kind == 'ODD':
            if b != 1:
                raise ValueError('data byte')
            return 1, None, 0
        if kind == 'NOP':
            if (b, mem[a + 1]) != (0x4e, 0x71):
                raise ValueError('nop')
            return 2, None, 0


class T6502(object):
    name = '6502'
    refs = ['ABS', 'JMP', 'DATW', 'BNE']
    gaps = [1, 13, 14, 15, 16, 120]
    org = 0xf0
    orglo = 0x90
    pad = 0

    def head(self):
        return ['\tcpu 6502', '\torg $%x' % self.org]

    def src(self, kind, lab):
        return {'ABS': 'lda ' + lab, 'JMP': 'jmp ' + lab, 'DATW': 'adr ' + lab, 'BNE': 'bne ' + lab, 'ODD': 'byt 1', 'NOP': 'nop'}[kind]

    def gap(self, g):
        return 'dfs %d' % g

    def wordsized(self, kind):
        return False

    def decode(self, mem, a, kind):
        b = mem[a]
        if kind == 'ABS':
            if b == 0xa5:
                return 2, mem[a + 1], 0xffff
            if b == 0xad:
                return 3, mem[a + 1] | (mem[a + 2] << 8), 0xffff
            raise ValueError('lda opcode %02x' % b)
        if kind == 'JMP':
            if b != 0x4c:
                raise ValueError('jmp opcode')
            return 3, mem[a + 1] | (mem[a + 2] << 8), 0xffff
        if kind == 'BNE':
            if b != 0xd0:
                raise ValueError('bne opcode')
            return 2, (a + 2 + s8(mem[a + 1])) & 0xffff, 0xffff
        if kind == 'DATW':
            return 2, mem[a] | (mem[a + 1] << 8), 0xffff
        if kind == 'ODD':
            return 1, None, 0
        if kind == 'NOP':
            if b != 0xea:
                raise ValueError('nop')
            return 1, None, 0


class T6809(T6502):
    name = '6809'
    refs = ['ABS', 'JMP', 'DATW', 'BRA', 'LBRA']
    gaps = [1, 13, 14, 15, 16, 125, 127]

    def head(self):
        return ['\tcpu 6809', '\torg $%x' % self.org]

    def src(self, kind, lab):
        return {'ABS': 'lda ' + lab, 'JMP': 'jmp ' + lab, 'DATW': 'fdb ' + lab, 'BRA': 'bra ' + lab, 'LBRA': 'lbra ' + lab, 'ODD': 'fcb 1', 'NOP': 'nop'}[kind]

    def gap(self, g):
        return 'rmb %d' % g

    def decode(self, mem, a, kind):
        b = mem[a]
        if kind == 'ABS':
            if b == 0x96:
                return 2, mem[a + 1], 0xffff
            if b == 0xb6:
                return 3, (mem[a + 1] << 8) | mem[a + 2], 0xffff
            raise ValueError('lda opcode %02x' % b)
        if kind == 'JMP':
            if b == 0x0e:
                return 2, mem[a + 1], 0xffff
            if b == 0x7e:
                return 3, (mem[a + 1] << 8) | mem[a + 2], 0xffff
            raise ValueError('jmp opcode %02x' % b)
        if kind == 'BRA':
            if b != 0x20:
                raise ValueError('bra opcode')
            return 2, (a + 2 + s8(mem[a + 1])) & 0xffff, 0xffff
        if kind == 'LBRA':
            if b != 0x16:
                raise ValueError('lbra opcode')
            return 3, (a + 3 + s16((mem[a + 1] << 8) | mem[a + 2])) & 0xffff, 0xffff
        if kind == 'DATW':
            return 2, (mem[a] << 8) | mem[a + 1], 0xffff
        if kind == 'ODD':
            return 1, None, 0
        if kind == 'NOP':
            if b != 0x12:
                raise ValueError('nop')
            return 1, None, 0


class T6811(T6502):
    """68HC11: bit-test branches carry the displacement behind a 3- or 4-byte operand part, the Y-indexed form behind a prebyte"""
    name = '6811'
    refs = ['BRSETD', 'BRCLRX', 'BRSETY', 'BNE', 'ABS', 'DATW']
    gaps = [1, 120, 122, 123, 124, 125, 126, 127]

    def head(self):
        return ['\tcpu 6811', '\torg $%x' % self.org]

    def src(self, kind, lab):
        return {'BRSETD': 'brset 16,#1,' + lab, 'BRCLRX': 'brclr 4,x,#8,' + lab, 'BRSETY': 'brset 4,y,#4,' + lab, 'BNE': 'bne ' + lab, 'ABS': 'ldaa ' + lab,
                'DATW': 'fdb ' + lab, 'ODD': 'fcb 1', 'NOP': 'nop'}[kind]

    def gap(self, g):
        return 'rmb %d' % g

    def decode(self, mem, a, kind):
        b = mem[a]
        if kind == 'BRSETD':
            if (b, mem[a + 1], mem[a + 2]) != (0x12, 16, 1):
                raise ValueError('brset dir')
            return 4, (a + 4 + s8(mem[a + 3])) & 0xffff, 0xffff
        if kind == 'BRCLRX':
            if (b, mem[a + 1], mem[a + 2]) != (0x1f, 4, 8):
                raise ValueError('brclr idx')
            return 4, (a + 4 + s8(mem[a + 3])) & 0xffff, 0xffff
        if kind == 'BRSETY':
            if (b, mem[a + 1], mem[a + 2], mem[a + 3]) != (0x18, 0x1e, 4, 4):
                raise ValueError('brset idy')
            return 5, (a + 5 + s8(mem[a + 4])) & 0xffff, 0xffff
        if kind == 'BNE':
            if b != 0x26:
                raise ValueError('bne')
            return 2, (a + 2 + s8(mem[a + 1])) & 0xffff, 0xffff
        if kind == 'ABS':
            if b == 0x96:
                return 2, mem[a + 1], 0xffff
            if b == 0xb6:
                return 3, (mem[a + 1] << 8) | mem[a + 2], 0xffff
            raise ValueError('ldaa opcode %02x' % b)
        if kind == 'DATW':
            return 2, (mem[a] << 8) | mem[a + 1], 0xffff
        if kind == 'ODD':
            return 1, None, 0
        if kind == 'NOP':
            if b != 0x01:
                raise ValueError('nop')
            return 1, None, 0


class T8086(T6502):
    name = '8086'
    refs = ['JMP', 'DATW', 'JNZ']
    gaps = [1, 125, 126, 127, 128, 129, 130]
    org = 0x100
    orglo = 0x90

    def head(self):
        return ['\tcpu 8086', '\torg %d' % self.org]

    def src(self, kind, lab):
        return {'JMP': 'jmp ' + lab, 'DATW': 'dw ' + lab, 'JNZ': 'jnz ' + lab, 'ODD': 'db 1', 'NOP': 'nop'}[kind]

    def gap(self, g):
        return 'db %d dup (?)' % g

    def decode(self, mem, a, kind):
        b = mem[a]
        if kind == 'JMP':
            if b == 0xeb:
                return 2, (a + 2 + s8(mem[a + 1])) & 0xffff, 0xffff
            if b == 0xe9:
                return 3, (a + 3 + s16(mem[a + 1] | (mem[a + 2] << 8))) & 0xffff, 0xffff
            raise ValueError('jmp opcode %02x' % b)
        if kind == 'JNZ':
            if b == 0x75:
                return 2, (a + 2 + s8(mem[a + 1])) & 0xffff, 0xffff
            if b == 0x74 and mem[a + 2] == 0xe9:     # inverted condition skipping a near jump (branch extension)
                return 5, (a + 5 + s16(mem[a + 3] | (mem[a + 4] << 8))) & 0xffff, 0xffff
            raise ValueError('jnz opcode %02x' % b)
        if kind == 'DATW':
            return 2, mem[a] | (mem[a + 1] << 8), 0xffff
        if kind == 'ODD':
            return 1, None, 0
        if kind == 'NOP':
            if b != 0x90:
                raise ValueError('nop')
            return 1, None, 0


TARGETS = {'68000-pad1': T68k(1), '68000-pad0': T68k(0), '6502': T6502(), '6809': T6809(), '8086': T8086(), '6811': T6811()}
RANGE_LIMITED = {'BNE', 'BRA', 'JNZ', 'PCR', 'BRSETD', 'BRCLRX', 'BRSETY', 'ADDQ'}      # short-only branches: a documented 'jump distance too big' error is legitimate


# ---- programs -------------------------------------------------------------------------------------

def programs(tname, nlab, maxbody, org=False):
    """canonical skeletons: body = tuple of ('R',kind,label) | ('ODD',) | ('NOP',) | ('GAP',g) | ('ORGLO',); labels: (position, attached).
    org=True: exactly one ORG to a LOWER address in the body, so that a label later in the source can lie below its reference"""
    T = TARGETS[tname]
    if org:
        alpha = [('R', k, l) for k in getattr(T, 'refs_org', T.refs) for l in range(nlab)] + [('ODD',), ('NOP',), ('ORGLO',), ('GAP', T.gaps[0])]      # (a small gap: what follows the ORG must stay below the first block)
    else:
        alpha = [('R', k, l) for k in T.refs for l in range(nlab)] + [('ODD',), ('NOP',)] + [('GAP', g) for g in T.gaps]
    for m in range(1, maxbody + 1):
        for body in itertools.product(alpha, repeat=m):
            if not any(x[0] == 'R' for x in body):
                continue
            if org and sum(1 for x in body if x[0] == 'ORGLO') != 1:
                continue
            if any(body[i][0] == 'GAP' and body[i + 1][0] == 'GAP' for i in range(m - 1)):
                continue
            used = set(x[2] for x in body if x[0] == 'R')
            if used != set(range(nlab)):
                continue
            for pos in itertools.combinations_with_replacement(range(m + 1), nlab):
                for att in itertools.product((0, 1), repeat=nlab):
                    # attached label needs a following item on its line; two labels cannot share one line
                    if any(a and p == m for p, a in zip(pos, att)):
                        continue
                    if any(a and body[p][0] == 'ORGLO' for p, a in zip(pos, att)):
                        continue      # a label on the ORG line itself: not modelled
                    if nlab == 2 and pos[0] == pos[1] and att[0]:
                        continue
                    yield {'k': 'skel', 't': tname, 'body': [list(x) for x in body], 'pos': list(pos), 'att': list(att)}


def render(case):
    T = TARGETS[case['t']]
    lines = list(T.head())
    body = case['body']
    labs = {}
    for i, (p, a) in enumerate(zip(case['pos'], case['att'])):
        labs.setdefault(p, []).append((i, a))
    form = case.get('form', '')
    pcs = {'8086': '$'}.get(case['t'], '*')
    for idx in range(len(body) + 1):
        attached = ''
        for i, a in labs.get(idx, []):
            if a:
                attached = 'L%d:' % i
            else:
                lines.append('L%d:' % i if 'equ' not in form else 'L%d\tequ %s' % (i, pcs))
        if idx < len(body):
            it = body[idx]
            if it[0] == 'R':
                txt = T.src(it[1], ('L%d+0' if 'plus0' in form else 'L%d') % it[2])
            elif it[0] == 'GAP':
                txt = T.gap(it[1])
            elif it[0] == 'ORGLO':
                txt = 'org %d' % T.orglo
            else:
                txt = T.src(it[0], '')
            lines.append('%s\t%s' % (attached, txt))
    return '\n'.join(lines) + '\n'


SCOPED_T = {'6809': ('\tcpu 6809\n\torg $f0\n', {'JMP': 'jmp %s', 'DATW': 'fdb %s', 'ABS': 'lda %s', 'SBR': 'bra %s'}, 'nop', 'rmb 200'),
            '68000': ('\tcpu 68000\n\torg $7f00\n', {'JMP': 'jsr %s', 'DATW': 'dc.w %s', 'ABS': 'move.w %s,d0', 'SBR': 'bra.s %s'}, 'nop', 'ds.b 200'),
            '8086': ('\tcpu 8086\n\torg 100h\n', {'JMP': 'jmp %s', 'DATW': 'dw %s', 'SBR': 'loop %s'}, 'nop', 'db 200 dup (?)')}


def maclocal():
    """auto-sized references to labels that are local to a macro / REPT / IRP body, forward and backward over gaps around the size
    limit, with the last expansion at the end of the source (nothing global moves behind it), plain and with the cross-reference and
    listing options that make the assembler keep more per-symbol data"""
    for t in sorted(SCOPED_T):
        head, refs, nop, gap = SCOPED_T[t]
        gapkw, gapn = gap.split()[0], gap.split()[1:]
        for kind in sorted(refs):
            for g in (2, 100, 124, 126, 128, 130, 200):
                gl = '\t' + (gap.replace('200', str(g)).replace('20', str(g)))
                for wrap in ('macro', 'rept', 'irp'):
                    for direction in ('fwd', 'back'):
                        for opts in ([], ['-C'], ['-L'], ['-C', '-L'], ['-u']):
                            yield {'k': 'macloc', 't': t, 'kind': kind, 'gap': gl, 'wrap': wrap, 'dir': direction, 'opts': opts}
                        # a label of the same name outside the body: the body's own label hides it, also for the reference in front of it
                        for opts in ([], ['-C']):
                            yield {'k': 'macloc', 't': t, 'kind': kind, 'gap': gl, 'wrap': wrap, 'dir': direction, 'opts': opts, 'outer': 1}


def render_macloc(case):
    if 'src' in case:
        return case['src']
    head, refs, nop, gap = SCOPED_T[case['t']]
    ref = '\t' + refs[case['kind']] % 'over'
    body = [ref, case['gap'], 'over:\t' + nop] if case['dir'] == 'fwd' else ['over:\t' + nop, case['gap'], ref]
    if case['wrap'] == 'macro':
        l = ['m\tmacro'] + body + ['\tendm', '\t' + nop, '\tm']
    elif case['wrap'] == 'rept':
        l = ['\t' + nop, '\trept 1'] + body + ['\tendm']
    else:
        l = ['\t' + nop, '\tirp q,1'] + body + ['\tendm']
    if case.get('outer'):
        l = ['over:\t' + nop] + l
    return head + '\n'.join(l) + '\n'


def ev_macloc(case):
    src = render_macloc(case)
    d = src.replace('\n', ' / ') + ' | asl ' + ' '.join(case['opts'])
    res = []
    for extra in (0, 1):
        core.fresh()
        core.put('a.asm', src)
        o, tr = run_asl(['-q'] + case['opts'] + ['a.asm'], extra)
        ck = core.crashkind(o)
        if ck:
            return core.R(False, ck, 'crash/macloc/%s' % ck, '%s on %s' % (ck, d))
        res.append((o.rc, core.get('a.p') if o.rc == 0 else None, tr[-1][3] if tr else None, len(tr)))
    n = res[0][3] + res[1][3]
    sig = '%s/%s/%s%s' % (case.get('wrap'), case.get('kind'), '+'.join(case['opts']) or 'plain', '/hides-outer-label' if case.get('outer') else '')
    if res[0][0] == 97:
        return core.R(False, 'no-fixpoint', 'termination/macloc/' + sig, 'no convergence within %d passes on %s' % (MAXP, d), transitions=n)
    if res[0][0] != res[1][0]:
        return core.R(False, 'not-a-fixpoint', 'fixpoint/macloc/rc/' + sig, 'exit status %s without, %s with a forced extra pass on %s' % (res[0][0], res[1][0], d), transitions=n)
    if res[0][0] != 0:
        return core.R(True, 'macloc-rejected', nontrivial=False, transitions=n)
    if res[0][1] != res[1][1]:
        return core.R(False, 'not-a-fixpoint', 'fixpoint/macloc/code/' + sig, 'a forced extra pass changes the code file on %s' % d, transitions=n)
    if res[0][2] != res[1][2]:
        return core.R(False, 'not-a-fixpoint', 'fixpoint/macloc/symbols/' + sig, 'a forced extra pass changes symbol values on %s' % d, transitions=n)
    return core.R(True, 'macloc-fixpoint-%d' % res[0][3], transitions=n, states=['macloc:%s' % res[0][2]])


def scoped():
    """one name X defined at up to three scope positions (before the section, inside it, after it), declared FORWARD / PUBLIC /
    GLOBAL or not at all, referenced before and after its local definition and outside: which definition a reference binds
    to must not depend on the pass in which it is looked up"""
    for t in sorted(SCOPED_T):
        for kind in sorted(SCOPED_T[t][1]):
            for ob, decl, rb, ld, ra, oa, ro, gap in itertools.product((0, 1), ('', 'forward', 'public', 'global'), (0, 1), (0, 1), (0, 1), (0, 1), (0, 1), (0, 1)):
                if not (rb or ra or ro):
                    continue
                yield {'k': 'scoped', 't': t, 'kind': kind, 'ob': ob, 'decl': decl, 'rb': rb, 'ld': ld, 'ra': ra, 'oa': oa, 'ro': ro, 'gap': gap}
                # the same section nested one and two levels deeper: the hidden outer X is then not in the direct parent
                if ld and (ob or oa) and not gap:
                    for depth in (2, 3):
                        yield {'k': 'scoped', 't': t, 'kind': kind, 'ob': ob, 'decl': decl, 'rb': rb, 'ld': ld, 'ra': ra, 'oa': oa, 'ro': ro, 'gap': gap, 'depth': depth}


def render_scoped(case):
    head, refs, nop, gap = SCOPED_T[case['t']]
    ref = '\t' + refs[case['kind']] % 'X'
    l = [head.rstrip('\n')]
    if case['ob']:
        l += ['X:\t' + nop]
    if case['gap']:
        l += ['\t' + gap]
    depth = case.get('depth', 1)
    l += ['\tsection o%d' % i for i in range(1, depth)]
    l += ['\tsection s']
    if case['decl']:
        l += ['\t%s X' % case['decl']]
    if case['rb']:
        l += [ref]
    if case['ld']:
        l += ['X:\t' + nop]
    if case['ra']:
        l += [ref]
    l += ['\tendsection'] * depth
    if case['oa']:
        l += ['X:\t' + nop]
    if case['ro']:
        l += [ref]
    return '\n'.join(l) + '\n'


def ev_scoped(case):
    src = render_scoped(case)
    d = describe(case)
    res = []
    for extra in (0, 1, 2):
        core.fresh()
        core.put('a.asm', src)
        o, tr = run_asl(['-q', 'a.asm'], extra)
        ck = core.crashkind(o)
        if ck:
            return core.R(False, ck, 'crash/scoped/%s' % ck, '%s on %s' % (ck, d))
        res.append((o.rc, core.get('a.p') if o.rc == 0 else None, tr[-1][3] if tr else None, len(tr)))
    n = sum(r[3] for r in res)
    sig = '%s/%s' % (case['decl'] or 'undeclared', case['kind']) + ('/nested-%d' % case['depth'] if case.get('depth') else '')
    if res[0][0] == 97:
        return core.R(False, 'no-fixpoint', 'termination/scoped/' + sig, 'no convergence within %d passes on %s' % (MAXP, d), transitions=n)
    if len(set(r[0] for r in res)) > 1:
        return core.R(False, 'not-a-fixpoint', 'fixpoint/scoped/rc/' + sig, 'exit status %s without, %s / %s with forced extra passes on %s' % (res[0][0], res[1][0], res[2][0], d), transitions=n)
    if res[0][0] != 0:
        # FORWARD announces the name as local: with the local definition present, references inside the section see only
        # that one from the first pass on, however far away an outer label of the same name is (manual, FORWARD)
        if case['decl'] == 'forward' and case['ld'] and not case['ro'] and not (case['ob'] and case['oa']):      # (X twice outside: a real double definition)
            return core.R(False, 'rejected', 'rejected/scoped/forward-declared/' + case['kind'], 'rc=%s although X is declared FORWARD and defined in the section on %s' % (res[0][0], d), transitions=n)
        return core.R(True, 'scoped-rejected', nontrivial=False, transitions=n)
    if res[0][1] != res[1][1] or res[0][1] != res[2][1]:
        return core.R(False, 'not-a-fixpoint', 'fixpoint/scoped/code/' + sig, 'a forced extra pass changes the code file on %s' % d, transitions=n)
    if res[0][2] != res[1][2] or res[0][2] != res[2][2]:
        return core.R(False, 'not-a-fixpoint', 'fixpoint/scoped/symbols/' + sig, 'a forced extra pass changes symbol values on %s' % d, transitions=n)
    return core.R(True, 'scoped-fixpoint-%d' % res[0][3], nontrivial=bool(case['rb']), transitions=n, states=['scoped:%s' % res[0][2]])


def subspaces(tier):
    q = tier == 'quick'
    subs = []
    for tn in TARGETS:
        subs.append(('skeleton-%s-1label<=%d' % (tn, 3 if q else 4), programs(tn, 1, 3 if q else 4)))
    for tn in TARGETS:
        subs.append(('skeleton-%s-2labels<=%d' % (tn, 2 if q else 3), programs(tn, 2, 2 if q else 3)))
    for tn in TARGETS:
        subs.append(('skeleton+org-%s-1label<=%d' % (tn, 3 if q else 4), programs(tn, 1, 3 if q else 4, org=True)))
    if not q:
        for tn in TARGETS:
            subs.append(('skeleton+org-%s-2labels<=3' % tn, programs(tn, 2, 3, org=True)))
    # the same skeletons with the label written as `name EQU <pc>` and/or referred to as `name+0`: whatever a code generator
    # remembers about "the label behind this instruction" must hold for these spellings too
    def forms():
        for tn in TARGETS:
            for form in ('equ', 'plus0', 'equ+plus0'):
                for c in programs(tn, 1, 2 if q else 3):
                    if 'equ' in form and (any(c['att']) or tn == '68000-pad1'):
                        continue      # (under PADDING ON a label in front of a padded word moves with it, `equ *` reads the odd address)
                    c['form'] = form
                    yield c
    subs.append(('skeleton-label-and-reference-spellings', forms()))
    subs.append(('sections-and-forward-declarations', scoped()))
    subs.append(('labels-local-to-macro-and-repetition-bodies', maclocal()))
    # symbols with floating-point values of every class (finite, infinite, not-a-number, signed zero) in a source that needs a
    # second pass: a value that does not change does not ask for a further pass
    fl = []
    for name, expr in (('finite', '1.5'), ('inf', '1.0e308*10.0'), ('neginf', '0.0-1.0e308*10.0'), ('nan', '(1.0e308*10.0)-(1.0e308*10.0)'), ('negzero', '0.0*(0.0-1.0)'),
                       ('tiny', '4.9e-324'), ('sqrt', 'sqrt(2.0)')):
        for fwd in (0, 1):
            for kw in ('equ', 'set'):
                fl.append({'k': 'macloc', 'wrap': 'float-symbol', 'kind': name, 'opts': [],
                           'src': '\tcpu 6502\n\torg $200\nx\t%s %s\ny\t%s x\n%sfwd:\trts\n' % (kw, expr, kw, '\tjmp fwd\n' if fwd else '\tnop\n')})
    subs.append(('float-symbols-in-multipass-sources', fl))
    subs.append(('golden-corpus-extra-pass', [{'k': 'corpus', 't': t} for t in corpus.tests()]))
    return subs


def describe(case):
    if case['k'] == 'corpus':
        return case['t'] + ' with one forced extra pass'
    if case['k'] == 'scoped':
        return render_scoped(case).replace('\n', ' / ')
    if case['k'] == 'macloc':
        return render_macloc(case).replace('\n', ' / ') + ' | ' + ' '.join(case['opts'])
    return render(case).replace('\n', ' / ')


def trace_of(path):
    out = []
    try:
        for l in open(path):
            f = l.split()
            if f and f[0] == 'P':
                out.append((int(f[1]), int(f[2]), int(f[3]), f[4]))
    except OSError:
        pass
    return out


def run_asl(args, extra, cwd=None):
    tr = os.path.join(core.workdir(), 'trace.txt')
    if os.path.exists(tr):
        os.unlink(tr)
    env = {'ASL_VERIF_TRACE': tr, 'ASL_VERIF_MAX_PASSES': str(MAXP)}
    if extra:
        env['ASL_VERIF_EXTRA_PASSES'] = str(extra)
    o = core.run('asl', args, env=env, timeout=120, cwd=cwd)
    return o, trace_of(tr)


def evaluate(case):
    if case['k'] == 'corpus':
        return ev_corpus(case)
    if case['k'] == 'scoped':
        return ev_scoped(case)
    if case['k'] == 'macloc':
        return ev_macloc(case)
    T = TARGETS[case['t']]
    src = render(case)
    core.fresh()
    core.put('a.asm', src)
    o, tr = run_asl(['-q', 'a.asm'], 0)
    d = describe(case)
    kinds = '+'.join(sorted(set(x[1] for x in case['body'] if x[0] == 'R')))
    ck = core.crashkind(o)
    if ck:
        return core.R(False, ck, 'crash/%s/%s' % (ck, case['t']), '%s on %s' % (ck, d), transitions=len(tr))
    states = ['%s:%s' % (hashlib.sha1(src.encode()).hexdigest()[:10], t[3]) for t in tr]
    if o.rc == 97:
        digs = [t[3] for t in tr]
        live = len(set(digs[-4:])) < len(digs[-4:])
        shape = '|'.join(l.strip().replace('\t', ' ') for l in src.split('\n')[len(T.head()):] if l.strip())
        bsrs = [i for i, x in enumerate(case['body']) if x[0] == 'R' and x[1] == 'BSR']
        if any(case['pos'][case['body'][i][2]] == j + 1 for i in bsrs for j in bsrs if j > i):
            shape = 'auto-sized-bsr-across-another-bsr-to-the-label-right-behind-that-one'
        return core.R(False, 'no-fixpoint', 'termination/%s/%s/%s' % ('livelock' if live else 'cap', case['t'], shape.replace(' ', '_')),
                      '%s after %d passes (digests %s) on %s' % ('pass livelock: symbol table repeats with Repass set' if live else 'no convergence', len(tr), digs[-3:], d), transitions=len(tr), states=states)
    if o.rc != 0:
        msg = (o.out + o.err).decode('latin-1')
        if 'too big' in msg or 'distance' in msg or (('range 1..8' in msg or 'range overflow' in msg or 'range underflow' in msg) and any(x[0] == 'R' and x[1] == 'ADDQ' for x in case['body'])):
            if any(x[0] == 'R' and x[1] in RANGE_LIMITED for x in case['body']):
                return core.R(True, 'range-error', nontrivial=False, transitions=len(tr), states=states)
        if 'odd' in msg or 'align' in msg:
            if T.name.startswith('68000') and any(x[0] == 'ODD' for x in case['body']):
                return core.R(True, 'odd-target-error', nontrivial=False, transitions=len(tr), states=states)
        return core.R(False, 'rejected', 'rejected/%s/%s' % (case['t'], kinds), 'rc=%s %s on %s' % (o.rc, msg[-160:], d), transitions=len(tr))
    p1 = core.get('a.p')
    mem = {}
    for r in pfile.data_records(pfile.read(p1)):
        for i, b in enumerate(r.data):
            mem[r.start + i] = b
    # ---- sequential decode: real address of every label and value of every reference
    a = T.org
    body = case['body']
    labaddr = {}
    refs = []
    pending = {}
    for p, (i, att) in zip(case['pos'], enumerate(case['att'])):
        pending.setdefault(p, []).append(i)
    try:
        for idx in range(len(body) + 1):
            here = pending.get(idx, [])
            if idx < len(body):
                it = body[idx]
                kind = it[1] if it[0] == 'R' else it[0]
                unpadded = a
                if T.pad and kind not in ('GAP', 'ORGLO') and T.wordsized(kind) and (a & 1):
                    a += 1          # pad byte (emitted as 0 or reserved)
                # manual (PADDING): the label on the line itself and a label alone on the line IMMEDIATELY before read the
                # padded address; label-only lines further up keep the unpadded one
                alone = [i for i in here if not case['att'][i]]
                attached = [i for i in here if case['att'][i]]
                # ... and when the padded line carries a label of its own, that one is the label that is moved; a label-only
                # line before it then keeps the unpadded address (observed; the manual does not address this combination)
                keep = alone if attached else alone[:-1]
                for i in here:
                    labaddr[i] = unpadded if (i in keep) else a
                if it[0] == 'GAP':
                    a += it[1]
                elif it[0] == 'ORGLO':
                    a = T.orglo
                else:
                    ln, val, mask = T.decode(mem, a, kind)
                    if it[0] == 'R':
                        refs.append((idx, kind, it[2], val, mask))
                    a += ln
            else:
                for i in here:
                    labaddr[i] = a
    except (KeyError, ValueError) as e:
        return core.R(False, 'undecodable', 'decode/%s/%s' % (case['t'], kinds), 'code does not parse as the program (%r at %x) on %s' % (e, a, d), transitions=len(tr))
    if len(mem) and max(mem) >= a and T.pad == 0 and not any(x[0] == 'ORGLO' for x in body):
        return core.R(False, 'extra-code', 'decode/extra/%s' % case['t'], 'code beyond the program end on ' + d, transitions=len(tr))
    for idx, kind, lab, val, mask in refs:
        if (labaddr[lab] & mask) != (val & mask):
            fwd = case['pos'][lab] > idx
            return core.R(False, 'stale-reference', 'reference/%s/%s/%s' % (case['t'], kind, 'forward' if fwd else 'backward'),
                          '%s item %d encodes %x but L%d is at %x in the emitted layout on %s' % (kind, idx, val, lab, labaddr[lab], d), transitions=len(tr), states=states)
    # ---- fixpoint: one more pass changes nothing
    o2, tr2 = run_asl(['-q', 'a.asm'], 1)
    p2 = core.get('a.p')
    if o2.rc != 0 or p2 != p1 or not tr2 or tr2[-1][3] != tr[-1][3]:
        what = 'rc' if o2.rc != 0 else 'code' if p2 != p1 else 'symbols'
        return core.R(False, 'not-a-fixpoint', 'fixpoint/%s/%s/%s' % (what, case['t'], kinds), 'a forced extra pass changes %s (rc %s) on %s' % (what, o2.rc, d), transitions=len(tr) + len(tr2))
    fwd = any(case['pos'][x[2]] > i for i, x in enumerate(body) if x[0] == 'R')
    return core.R(True, 'converged-%d' % len(tr), nontrivial=fwd, transitions=len(tr) + len(tr2), states=states)


def ev_corpus(case):
    t = case['t']
    res = []
    for extra in (0, 1):
        core.fresh()
        d = os.path.join(core.workdir(), 'src')
        os.makedirs(d, exist_ok=True)
        corpus.prep(t, d)
        o, tr = run_asl(corpus.flags(t) + ['-q', '-i', corpus.incdir(), t + '.asm'], extra, cwd=d)
        ck = core.crashkind(o)
        if ck:
            return core.R(False, ck, 'crash/corpus/%s' % t, '%s on %s (extra=%d)' % (ck, t, extra))
        res.append((o.rc, core.get('src/' + t + '.p'), tr, (o.out + o.err)[-200:].decode('latin-1')))
    (rc0, p0, tr0, m0), (rc1, p1, tr1, m1) = res
    n = len(tr0) + len(tr1)
    if rc0 == 97:
        return core.R(False, 'no-fixpoint', 'termination/corpus/' + t, '%s does not converge within %d passes' % (t, MAXP), transitions=n)
    if rc0 != 0:
        return core.R(False, 'rejected', 'rejected/corpus/' + t, '%s rc=%s %s' % (t, rc0, m0), transitions=n)
    if rc1 != 0:
        return core.R(False, 'not-a-fixpoint', 'fixpoint/corpus/%s/%s' % (t, 'livelock' if rc1 == 97 else 'errors'), 'a forced extra pass over %s ends with rc=%s: %s' % (t, rc1, m1), transitions=n)
    if p0 != p1:
        return core.R(False, 'not-a-fixpoint', 'fixpoint/corpus/%s/code' % t, 'a forced extra pass over %s changes the code file (%d -> %d bytes)' % (t, len(p0), len(p1)), transitions=n)
    if tr0[-1][3] != tr1[-1][3]:
        return core.R(False, 'not-a-fixpoint', 'fixpoint/corpus/%s/symbols' % t, 'a forced extra pass over %s changes symbol values' % t, transitions=n)
    return core.R(True, 'corpus-fixpoint-%d' % len(tr0), transitions=n, states=['%s:%s' % (t, x[3]) for x in tr0])
