import os, subprocess, sys, tempfile, shutil, collections, struct
from fractions import Fraction
sys.path.insert(0,'/tmp/w/s')
from pdump import parse
ASL='/repo/_build/asl'
def enc(x, eb, mb):
    """x: python float (finite). returns int bit pattern, RNE from the double value"""
    sign=0
    import math
    if math.copysign(1.0,x)<0: sign=1; x=-x
    f=Fraction(x)
    bias=(1<<(eb-1))-1
    if f==0: return sign<<(eb+mb)
    # find exponent e with 2^e <= f < 2^(e+1)
    e=f.numerator.bit_length()-f.denominator.bit_length()
    if Fraction(2)**e>f: e-=1
    if Fraction(2)**(e+1)<=f: e+=1
    emin=1-bias
    if e<emin: e=emin  # subnormal scaling
    scaled=f/ (Fraction(2)**(e-mb))   # value in units of ulp
    n=scaled.numerator//scaled.denominator; rem=scaled-n
    if rem>Fraction(1,2) or (rem==Fraction(1,2) and (n&1)): n+=1
    # n includes hidden bit if normal
    if n>=(1<<(mb+1)): n>>=1; e+=1   # (exact since rounding up to power of two)
    if n<(1<<mb): expf=0; man=n      # subnormal (or zero)
    else: expf=e+bias; man=n-(1<<mb)
    if expf>=(1<<eb)-1: return (sign<<(eb+mb))|(((1<<eb)-1)<<mb)   # inf
    return (sign<<(eb+mb))|(expf<<mb)|man
def half_val(p):
    s=-1 if p>>15 else 1; e=(p>>10)&31; m=p&1023
    if e==0: return s*Fraction(m,1<<24)
    return s*Fraction((1<<10)+m,1<<10)*Fraction(2)**(e-15)
def dec(fr):
    # exact decimal string of a dyadic rational
    s='-' if fr<0 else ''; fr=abs(fr)
    ip=fr.numerator//fr.denominator; r=fr-ip
    digs=''
    while r and len(digs)<60:
        r*=10; d=r.numerator//r.denominator; digs+=str(d); r-=d
    return s+str(ip)+'.'+(digs or '0')
cases=[]
pats=[p for p in range(0,0x7c00)]   # positive finite
for p in pats:
    v=half_val(p); cases.append((dec(v),))
    if p+1<0x7c00:
        mid=(half_val(p)+half_val(p+1))/2; cases.append((dec(mid),))
print(len(cases),'literals')
def run_batch(lits):
    d=tempfile.mkdtemp(dir='/dev/shm')
    src=['\tcpu 68000']
    for k,l in enumerate(lits): src+=['\torg %d'%(k*4),'\tdc.c %s'%l]
    open(d+'/a.asm','w').write('\n'.join(src)+'\n')
    r=subprocess.run([ASL,'-q','a.asm'],cwd=d,capture_output=True,env={'LC_ALL':'C'})
    p=open(d+'/a.p','rb').read() if os.path.exists(d+'/a.p') else None
    shutil.rmtree(d); return r.returncode,r.stderr.decode(),p
bad=[]; n=0
for i in range(0,len(cases),2000):
    chunk=[c[0] for c in cases[i:i+2000]]
    rc,err,p=run_batch(chunk)
    if rc!=0: print('batch rc',rc,err[:200]); continue
    recs={x[5]:x[7] for x in parse(p) if x[0]=='data'}
    for k,l in enumerate(chunk):
        want=enc(float(l),5,10)
        b=recs.get(k*4)
        got=struct.unpack('>H',b)[0] if b and len(b)==2 else None
        n+=1
        if got!=want: bad.append((l,want,got))
print(n,'checked',len(bad),'bad')
cls=collections.Counter()
for l,w,g in bad:
    k='subnormal' if w<0x400 else 'normal'
    cls[k]+=1
print(cls)
for b in bad[:8]: print(b[0][:30],'want %04x got %s'%(b[1],'%04x'%b[2] if b[2] is not None else None))
for b in [x for x in bad if x[1]>=0x400][:8]: print(b[0][:30],'want %04x got %s'%(b[1],'%04x'%b[2] if b[2] is not None else None))
