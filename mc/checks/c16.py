"""C16 - spelling the manual declares irrelevant does not change the code.

Deviation-bounded exploration: a rewrite KIND is applied uniformly to every applicable line of a golden source (or to
one single line); the deviation is the set of kinds switched on.  Oracle: the p2bin image of the rewritten source equals
the RECORDED tests/<t>/<t>.ori (trusted output, not the current binary's).  Generated programs (labels referenced from
repetition bodies and macros) use the image of their unrewritten text as reference.
"""
import itertools, os, re
from .. import core, corpus

ID = 'C16'
LEVEL = 'model_checking'
VARIANTS = ['plain']
CHUNK = 4
ENGINE = 'deviation-enumerator'
TECHNIQUE = 'exhaustive enumeration of meaning-preserving rewrite subsets (and single-line applications) over the golden corpus, differential against recorded images'
LEVEL_TEXT = ('Every golden source x every subset of at most 1 (quick) / 2 (thorough) of 11 rewrite kinds (mnemonic case up/down, symbol case, blank '
              'runs -> TAB / blanks, comments appended, blank line after every line, comment-only line after every line, CR-LF, label colon added / '
              'removed, INCLUDE wrapper, macro wrapper), and every (line, kind) single-line application for the line-local kinds, is assembled and '
              'converted; the image must equal the recorded .ori. Applicability predicates are derived from the manual\'s input format rules.'
              ' Two more kinds rewrite the first blank run inside the operand field (TAB, TAB+blank) where that field carries sub-fields: RPTC/RPTZ, [condition], OP, and DSP56xxx parallel moves.'
              ' Added in the last round: symbol case changed on single lines, structure bit elements referring to siblings.'
              ' A generated source with named symbol stacks has the stack names rewritten by the symbol-case kind.')
LEVEL_NOTE = ('Trusted: recorded .ori images; the rewriters. Exemptions (documented in DESIGN.md): lines with an odd number of quote characters for '
              'comment appending, ISA-significant register case (symbol case flips only symbols the source defines), macro wrapper only for '
              'sources without second CPU statement / symbol-defining pseudo instructions / END.')
RULE = 'source x set of rewrite kinds; non-trivial = the rewrite changed the source text'
BOUNDS = {'quick': 'k<=1 whole-file + single-line kinds on sources <= 120 lines', 'thorough': 'k<=2 whole-file + single-line kinds on sources <= 400 lines'}
ASSUMPTIONS = ['tests/<t>/<t>.ori is the correct image of tests/<t>/<t>.asm']

KINDS = ['opcase-up', 'opcase-low', 'symcase', 'ws-tab', 'ws-blanks', 'ws-inner-tab', 'ws-inner-tabblank', 'comment', 'blankline', 'commentline', 'crlf', 'colon-add', 'colon-del', 'include', 'macro']
LINE_KINDS = ['opcase-up', 'opcase-low', 'symcase', 'ws-tab', 'ws-inner-tab', 'ws-inner-tabblank', 'comment', 'blankline', 'commentline', 'colon-add', 'colon-del']

GEN = {
    'g_rept_refs': '\tcpu z80\nstart:\tld a,1\ntab:\tdb 1,2,3\n\trept 2\n\tdw tab,start\n\tendm\n\tirp x,1,2\n\tdb x\n\tdw start\n\tendm\nm\tmacro\n\tdw tab\n\tjp start\n\tendm\n\tm\n',
    'g_par': '\tcpu 320c30\n\tabsf\t*ar4++,r6\n||\tstf\tr6,*ar5++\n\tsti\tr5,*ar3\n||\tabsi\t*ar4++%,r1\n\taddf3\t*ar4++,r5,r7\n||\tstf\tr3,*ar5++\n',
    'g_sections': '\tcpu 8086\nsym\tequ 1\n\tsection a\nsym2\tequ 2\nloc:\tdw sym,sym2\n\tdw loc\n\tendsection\n\tdw sym\n',
    'g_cond': '\tcpu 6502\nflag\tequ 1\n\tif flag\nlab:\tlda #1\n\telse\nlab:\tlda #2\n\tendif\n\tjmp lab\n',
    # constants ending in an escaped backslash or holding escaped quotes, in front of further operands / a comment
    'g_escapes': '\tcpu z80\n\tdb "C:\\\\"\n\tdb \'\\\\\'\n\tdb "a\\"b"\n\tdb "x\\\\",1,"\\\\"\n\tdb "semi;colon",2\n\tdb \';\'\n\tld a,\'\\\\\'\n',
    # structure elements that refer to sibling elements (bit definitions): the reference is a symbol like any other
    'g_structbits': '\tcpu h8/300\nflags\tstruct\nbyte1\tds.b 1\nbyte2\tds.b 1\nrdy\tbit 0,byte1\nerr\tbit 3,byte2\nflags\tendstruct\n\torg $ff10\ninst\tflags\n\torg $100\n\tbset inst_rdy\n\tbclr inst_err\n\tmov.b @inst_byte2,r0l\n',
    # every repetition construct nested in a body (the macro wrapper nests them once more)
    # named symbol stacks: the stack's name is a name like any other (letter case irrelevant unless -U)
    'g_stacks': '\tcpu z80\nval\tset 1\noth\tset 2\n\tpushv MYSTK,val\n\tpushv Other,oth\nval\tset 5\noth\tset 6\n\tdb val,oth\n\tpopv Other,oth\n\tdb val,oth\n\tpopv MYSTK,val\n\tdb val,oth\n',
    'g_repeats': '\tcpu z80\n\tdb 1\n\tirpn 2,x,y,1,2,3,4\n\tdb x,y\n\tendm\n\tirpc c,"ab"\n\tdb \'c\'\n\tendm\n\trept 2\n\tirpn 1,q,5,6\n\tdb q\n\tendm\n\tendm\n\tirp z,7,8\n\tirpc d,"12"\n\tdb z,d\n\tendm\n\tendm\n\tdb 9\n',
}


def split_code(l):
    """(code part, comment part) honouring quotes"""
    q = None
    esc = False
    for i, ch in enumerate(l):
        if q:
            if esc:
                esc = False
            elif ch == '\\':
                esc = True
            elif ch == q:
                q = None
        elif ch in '"\'':
            q = ch
        elif ch == ';':
            return l[:i], l[i:]
    return l, ''


def fields(code):
    m = re.match(r'^(\S*)(\s+)(\S+)(\s*)(.*)$', code)
    return m


def cont(l):
    return l.rstrip().endswith('\\')


def rw_line(l, kind, prev_cont, defined):
    """rewrite one line; returns list of lines"""
    if prev_cont or cont(l) or (l.startswith('#') and kind not in ('blankline', 'commentline')):
        return [l]      # '#define name text': the rest of the line is replacement text, not statement + comment
    code, com = split_code(l)
    if kind in ('opcase-up', 'opcase-low'):
        m = fields(code)
        if m and not m.group(3).startswith(('"', "'")):
            op = m.group(3)
            if re.fullmatch(r'[A-Za-z][A-Za-z0-9_.]*', op):
                op = op.upper() if kind == 'opcase-up' else op.lower()
                return [m.group(1) + m.group(2) + op + m.group(4) + m.group(5) + com]
        return [l]
    if kind in ('ws-tab', 'ws-blanks'):
        m = fields(code)
        if m:
            sep = '\t' if kind == 'ws-tab' else '        '
            return [m.group(1) + sep + m.group(3) + (sep if m.group(4) else '') + m.group(5) + com]
        return [l]
    if kind in ('ws-inner-tab', 'ws-inner-tabblank'):
        # the first run of blanks/tabs INSIDE the operand field, where it separates two words (targets that carry a second
        # instruction in the operand field - RPTC #n <insn>, [cond] <insn>, OP ... - split it there once more)
        m = fields(code)
        # only where the words of the operand field are fields of their own: a second instruction behind RPTC/RPTZ (MSP430X), a
        # [condition] (C6x), OP (uPD7720), and the blank-separated parallel moves of the DSP56xxx; elsewhere (`byte ptr [bx]`,
        # the keyword clauses of SCSI SCRIPTS) blanks inside an operand are part of the operand syntax, not field separators
        if m and m.group(5) and (m.group(3).lower() in ('rptc', 'rptz', 'op') or m.group(3).startswith('[') or 'dsp56' in defined):
            mm = re.match(r'^([^\s"\'();]+)([ \t]+)([A-Za-z_.#\[(].*)$', m.group(5))
            if mm and not mm.group(1).endswith(','):
                sep = '\t' if kind == 'ws-inner-tab' else '\t '
                return [m.group(1) + m.group(2) + m.group(3) + m.group(4) + mm.group(1) + sep + mm.group(3) + com]
        return [l]
    if kind == 'comment':
        if com == '' and code.strip() and (code.count('"') + code.count("'")) % 2 == 0:
            return [code.rstrip() + ' ; x']
        return [l]
    if kind == 'blankline':
        return [l, '']
    if kind == 'commentline':
        return [l, '; a comment line']
    if kind == 'colon-add':
        m = re.match(r'^([A-Za-z_][A-Za-z0-9_]*)(\s.*|)$', code)
        if m and (fields(code) is None or fields(code).group(3).lower() not in NOCOLON):
            return [m.group(1) + ':' + m.group(2) + com]
        return [l]
    if kind == 'colon-del':
        m = re.match(r'^([A-Za-z_][A-Za-z0-9_]*):(\s.*|)$', code)
        if m:
            return [m.group(1) + (m.group(2) or '') + com]
        return [l]
    if kind == 'symcase':
        def flip(mm):
            t = mm.group(0)
            return (t.upper() if t != t.upper() else t.lower()) if t.lower() in defined else t
        out = []
        q = None
        buf = ''
        for ch in code:
            if q:
                buf += ch
                if ch == q:
                    q = None
            elif ch in '"\'':
                out.append(buf)
                buf = ch
                q = ch
                continue
            else:
                buf += ch
        # simple approach: substitute outside quotes
        parts = re.split(r'("(?:[^"\\]|\\.)*"|\'(?:[^\'\\]|\\.)*\')', code)
        parts = [p if i % 2 else re.sub(r'[A-Za-z_][A-Za-z0-9_]*', flip, p) for i, p in enumerate(parts)]
        return [''.join(parts) + com]
    return [l]


NOCOLON = {'macro', 'equ', 'set', '=', ':=', 'struct', 'struc', 'endstruct', 'ends', 'union', 'endunion', 'function', 'label', 'eval', 'reg', 'bit', 'sfr', 'sfrb', 'port',
           'enum', 'nextenum', 'endstruc', 'charset', 'defbit', 'xsfr', 'ysfr', 'liv', 'riv', 'dbit', 'sbit', 'rsbit', 'regs', 'name'}


def defined_symbols(text):
    s = set()
    for l in text.split('\n'):
        code, _ = split_code(l)
        m = re.match(r'^([A-Za-z_][A-Za-z0-9_]*):?(\s|$)', code)
        if m:
            s.add(m.group(1).lower())
        m = re.match(r'^\s+(?:pushv|popv)\s+([A-Za-z_][A-Za-z0-9_]*)\s*,', code, re.I)      # the name of a symbol stack
        if m:
            s.add(m.group(1).lower())
    # names that double as register / mnemonic-like tokens are not flipped
    return {x for x in s if len(x) > 2 and not re.fullmatch(r'[a-z]{1,2}\d*', x)}


def rewrite(text, kinds, only_line=None):
    eol = '\n'
    lines = text.replace('\r\n', '\n').split('\n')
    defined = defined_symbols(text) if 'symcase' in kinds else set()
    if re.search(r'^\s+cpu\s+56\d', text, re.M | re.I):
        defined = set(defined) | {'dsp56'}      # marker: operands are blank-separated fields on this target
    for kind in kinds:
        if kind in ('crlf', 'include', 'macro'):
            continue
        out = []
        pc = False
        for i, l in enumerate(lines):
            if only_line is None or i == only_line:
                out += rw_line(l, kind, pc, defined)
            else:
                out.append(l)
            pc = cont(l)
        lines = out
    if 'crlf' in kinds:
        eol = '\r\n'
    body = eol.join(lines)
    files = {}
    if 'include' in kinds:
        files['body.inc'] = body
        body = '\tinclude "body.inc"' + eol
    if 'macro' in kinds:
        body = 'wrapm\tmacro' + eol + body + eol + '\tendm' + eol + '\twrapm' + eol
    return body, files


def macro_ok(text):
    t = text.lower()
    if len(re.findall(r'^\s+cpu\s', t, re.M)) > 1:
        return False
    for kw in ('macro', 'include', 'save', 'restore', 'section', 'struct', 'union', 'function', ' equ ', '\tequ\t', ' set ', '\tset\t', '\tend\b', 'momline', 'label', 'charset', ' reg ', '\treg\t',
               'enum', 'pushv', '\tbit\t', 'sfr', 'port', '\\{', ':=', '\t=\t', ' = ', '$$', 'irp', 'rept', 'while', 'assume', 'exitm', 'phase', 'defbit', 'dbit', 'sbit', 'xsfr', 'liv', 'riv', 'name', 'title'):
        if re.search(kw if '\\' in kw or '$' in kw else re.escape(kw), t):
            return False
    return True


def sources():
    return corpus.tests() + sorted(GEN)


def src_text(t):
    if t in GEN:
        return GEN[t]
    return open(os.path.join(corpus.tdir(), t, t + '.asm'), 'rb').read().decode('latin-1')


def subspaces(tier):
    q = tier == 'quick'
    k = 1 if q else 2
    subs = []

    def whole():
        for t in sources():
            txt = src_text(t)
            for r in range(1, k + 1):
                for ks in itertools.combinations(KINDS, r):
                    if 'opcase-up' in ks and 'opcase-low' in ks or 'ws-tab' in ks and 'ws-blanks' in ks or 'ws-inner-tab' in ks and 'ws-inner-tabblank' in ks or 'colon-add' in ks and 'colon-del' in ks:
                        continue
                    if 'macro' in ks and not (macro_ok(txt) or t in ('g_rept_refs', 'g_par', 'g_cond', 'g_escapes', 'g_repeats')):
                        continue
                    if 'symcase' in ks and '-U' in corpus.flags(t) if t not in GEN else False:
                        continue
                    yield {'t': t, 'kinds': list(ks)}
    subs.append(('whole-file-kinds<=%d' % k, whole()))
    maxl = 120 if q else 400

    def single():
        for t in sources():
            lines = src_text(t).replace('\r\n', '\n').split('\n')
            if len(lines) > maxl:
                continue
            nou = ('-U' not in corpus.flags(t)) if t not in GEN else True
            defs = defined_symbols(src_text(t)) if nou else set()
            for i, l in enumerate(lines):
                for kind in LINE_KINDS:
                    pc = i > 0 and cont(lines[i - 1])
                    if rw_line(l, kind, pc, set(defs) | ({'dsp56'} if t.startswith('t_56') else set())) != [l]:
                        yield {'t': t, 'kinds': [kind], 'line': i}
    subs.append(('single-line(sources<=%d lines)' % maxl, single()))
    return subs


def describe(case):
    return '%s: %s%s' % (case['t'], '+'.join(case['kinds']), ' on line %d' % (case['line'] + 1) if 'line' in case else '')


_ref = {}


def assemble(t, text, files):
    core.fresh()
    d = os.path.join(core.workdir(), 'src')
    os.makedirs(d, exist_ok=True)
    if t not in GEN:
        corpus.prep(t, d)
    core.put('src/' + t + '.asm', text)
    for n, c in files.items():
        core.put('src/' + n, c)
    fl = corpus.flags(t) if t not in GEN else []
    o = core.run('asl', fl + ['-q', '-i', corpus.incdir(), t + '.asm'], cwd=d, timeout=120)
    if core.crashkind(o) or o.rc != 0:
        return o, None
    o2 = core.run('p2bin', ['-q', '-k', '-l', '0', '-r', '0x-0x', t], cwd=d, timeout=60)
    return o, core.get('src/' + t + '.bin')


def reference(t):
    if t not in _ref:
        if t in GEN:
            o, img = assemble(t, GEN[t], {})
            _ref[t] = img
        else:
            _ref[t] = corpus.ori(t)
    return _ref[t]


def evaluate(case):
    t = case['t']
    txt = src_text(t)
    new, files = rewrite(txt, case['kinds'], case.get('line'))
    changed = new != txt
    ref = reference(t)
    o, img = assemble(t, new, files)
    d = describe(case)
    ck = core.crashkind(o)
    sig_k = '+'.join(case['kinds'])
    if ck:
        return core.R(False, ck, 'crash/%s/%s' % (ck, sig_k), '%s on %s' % (ck, d))
    if img is None:
        return core.R(False, 'rejected', 'rejected/%s/%s' % (sig_k, t), 'rewritten source no longer assembles (rc=%s): %s on %s' % (o.rc, (o.out + o.err)[-200:].decode('latin-1'), d))
    if img != ref:
        return core.R(False, 'image-differs', 'image/%s/%s' % (sig_k, t), 'image differs from the recorded one (%d vs %d bytes) on %s' % (len(img), len(ref or b''), d))
    return core.R(True, 'same-image', nontrivial=changed, states=['%s|%s' % (t, sig_k)])
