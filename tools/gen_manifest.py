#!/usr/bin/env python3
"""Regenerates MANIFEST.json from the check modules that exist (claimed) and properties.jsonl (the rest)."""
import importlib, json, os, subprocess, sys
ROOT = os.path.dirname(os.path.dirname(os.path.abspath(__file__)))
sys.path.insert(0, ROOT)
props = [json.loads(l) for l in open(os.path.join(ROOT, 'properties.jsonl'))]
hooks_commits = [l.split()[0] for l in subprocess.run(['git', '-C', '/repo', 'log', '--format=%H %s'], capture_output=True, text=True).stdout.splitlines() if ' verif-hook:' in l]
checks, na = [], []
for p in props:
    pid = p['id']
    path = os.path.join(ROOT, 'mc', 'checks', pid.lower() + '.py')
    mod = None
    if os.path.exists(path):
        mod = importlib.import_module('mc.checks.' + pid.lower())
    if mod is None or not getattr(mod, 'REGISTERED', True):
        na.append(dict(property_id=pid, reason=getattr(mod, 'NA_REASON', 'check designed (DESIGN.md section 3) but not yet built and run to completion on the unchanged tree; not claimed')))
        continue
    cat = mod.LEVEL
    checks.append(dict(
        property_id=pid,
        quick_cmd='./check %s --tier quick' % pid,
        thorough_cmd='./check %s --tier thorough' % pid,
        evidence_file='evidence/%s.json' % pid,
        replay_cmd_template='./check %s --replay {path}' % pid,
        engine=getattr(mod, 'ENGINE', 'history-explorer'),
        level_claimed=dict(category=cat, text=mod.LEVEL_TEXT, design_ref='DESIGN.md section 3, ' + pid),
        level_note=mod.LEVEL_NOTE,
        technique=getattr(mod, 'TECHNIQUE', 'bounded exhaustive enumeration of inputs/histories executed on the real binaries against a reference model'),
    ))
m = dict(
    version=1,
    setup_cmd='python3 -m compileall -q mc && ./check --selftest',
    hooks=dict(guard='FLAMEWING_ASL_RELEASES_VERIF',
               enable='mc/build.py configures cmake with -DCMAKE_C_FLAGS=-DFLAMEWING_ASL_RELEASES_VERIF into /verif/build/{plain,asan}',
               baseline_off_cmd='./check --baseline-off',
               source_commits=hooks_commits, add_only=True),
    engines=[dict(name='mc-core', path='mc/core.py', serves_properties=[c['property_id'] for c in checks],
                  kind_free_text='exhaustive sub-space driver: enumerates every case of each stated finite space, executes the rebuilt binaries in a process pool, compares with Python reference models, deduplicates model states, writes replays/evidence')],
    checks=checks,
    notes='All checks rebuild /repo incrementally (cmake+ninja) into /verif/build before exploring. Known findings: known_findings.txt.',
    not_applicable=na,
)
json.dump(m, open(os.path.join(ROOT, 'MANIFEST.json'), 'w'), indent=1)
print('claimed', [c['property_id'] for c in checks])
