"""C11 - macro, repetition and inclusion constructs are transparent.

The generator emits, for every element of the stated spaces, BOTH the program that uses the construct and its hand
expansion according to the manual's textual substitution rules (reference expander below).  Oracle: both assemble
without error and their code files hold the same bytes at the same addresses.
"""
import itertools, re
from .. import core
from ..fmt import pfile

ID = 'C11'
LEVEL = 'model_checking'
VARIANTS = ['plain']
CHUNK = 16
ENGINE = 'product-enumerator'
TECHNIQUE = 'exhaustive construct programs paired with reference hand expansions, both executed on the real assembler and compared byte for byte'
LEVEL_TEXT = ('Macros with 0..20 parameters (every call shape per parameter for p<=3, every single deviating position above), every parameter-name / '
              'body-identifier boundary pairing in every line position, REPT/IRP/IRPN/IRPC/WHILE with every count, list length, group size and '
              'ragged tail in the bounds, EXITM and SHIFT at every position (also inside nested repetitions), every ordered pair (thorough: triple) '
              'of constructs nested, BINCLUDE offset/length products and side-effect statements in bodies are assembled next to their hand '
              'expansion; the two code files must hold identical bytes at identical addresses and neither may report an error.'
              ' SHIFT is enumerated over 1..3 formal parameters x 0..4 arguments x 0..3 shifts with ARGCOUNT/ALLARGS read each time; constructs without body lines inside macros, predefined symbols read after bodies that change them, and BINCLUDE across the 256-byte copy chunk and the 64 KiB record limit are included.'
              ' IRPC over the empty string and SHIFT over every placement of empty arguments are included.'
              ' Added in the last round: BINCLUDE on targets with 2 and 4 bytes per address unit.')
LEVEL_NOTE = ('Trusted: the reference expander (whole-identifier substitution, positional/keyword/default arguments, private labels per expansion). '
              'Arguments reaching string context are upper case (the manual: arguments are folded to upper case outside quotes unless -U).')
RULE = 'construct program vs hand expansion; non-trivial = all'
BOUNDS = {'quick': 'p in {0,1,2,3,8,9,12,20}; nesting pairs', 'thorough': 'p 0..20; nesting triples'}
ASSUMPTIONS = ['db/dw on the 8080 target place their operands unchanged', 'labels in bodies are private per expansion']

HEAD = ['\tcpu 8080']
IDENT = re.compile(r'[A-Za-z0-9_.$]+')


def subst(line, binding):
    """whole parameter names (case-insensitive), delimited by anything that cannot be part of an identifier"""
    def rep(m):
        t = m.group(0)
        return binding.get(t.upper(), t)
    return re.sub(r'[A-Za-z][A-Za-z0-9]*|[0-9][A-Za-z0-9]*', rep, line)


def pair(prog, hand, tag):
    return {'prog': HEAD + prog, 'hand': HEAD + hand, 'tag': tag}


# ---- (a) parameters ------------------------------------------------------------------------------

def macro_param_cases(ps):
    for p in ps:
        params = ['P%d' % i for i in range(p)]
        defaults = {params[i]: str(50 + i) for i in range(p) if i % 2 == 1}
        # (`P+0`: an empty argument still leaves a valid operand, so explicitly empty keyword arguments stay observable)
        body = ['\tdb ' + ','.join(['99'] + [x + '+0' for x in params])] if p else ['\tdb 99']
        plist = ','.join(x + ('=' + defaults[x] if x in defaults else '') for x in params)
        shapes = ['omit', 'empty', 'simple', 'other', 'kw', 'kwempty']

        def one(shape_per):
            pos = []
            kw = {}
            val = {}
            trailing_omit = True
            for i in reversed(range(p)):
                if shape_per[i] != 'omit':
                    trailing_omit = False
                elif not trailing_omit:
                    shape_per = list(shape_per)
                    shape_per[i] = 'empty'
            for i, sh in enumerate(shape_per):
                nm = params[i]
                if sh == 'simple':
                    pos.append(str(10 + i))
                    val[nm] = str(10 + i)
                elif sh == 'other':
                    # an argument that looks like another parameter's name must not be substituted again
                    pos.append('Q%d' % ((i + 1) % max(p, 1)))
                    val[nm] = 'Q%d' % ((i + 1) % max(p, 1))
                elif sh == 'empty':
                    pos.append('')
                    val[nm] = defaults.get(nm, '')
                elif sh == 'omit':
                    val[nm] = defaults.get(nm, '')
                elif sh == 'kw':
                    pos.append(None)
                    kw[nm] = str(30 + i)
                    val[nm] = str(30 + i)
                elif sh == 'kwempty':
                    pos.append(None)
                    kw[nm] = ''
                    val[nm] = ''
            if any(x is None for x in pos) and any(x is not None and x != '' for x in pos[[i for i, x in enumerate(pos) if x is None][0]:]):
                return None     # positional after keyword: keep positional prefix only
            args = [x for x in pos if x is not None]
            while args and args[-1] == '' and not kw:
                args.pop()
            call = ','.join(args + ['%s=%s' % (k, v) for k, v in kw.items()])
            bind = {k.upper(): v for k, v in val.items()}
            hand = ['Q%d\tequ %d' % (i, 200 + i) for i in range(max(p, 1))]
            exp = [subst(l, bind) for l in body]
            if any(re.search(r',\s*,|,\s*$|db\s*,', l) for l in exp):
                return None     # hand expansion itself is not a valid statement (empty operand)
            return pair(hand + ['m\tmacro ' + plist] + body + ['\tendm', '\tm ' + call], hand + exp, 'macro-params/p=%d' % p)
        if p <= 3:
            for sp in itertools.product(shapes, repeat=p):
                c = one(list(sp))
                if c:
                    yield c
        else:
            base = ['simple'] * p
            c = one(list(base))
            if c:
                yield c
            for i in range(p):
                for sh in shapes:
                    sp = list(base)
                    sp[i] = sh
                    c = one(sp)
                    if c:
                        yield c
    # ARGCOUNT / ALLARGS
    for n in range(0, 5):
        args = [str(10 + i) for i in range(n)]
        yield pair(['m\tmacro', '\tdb 99,ARGCOUNT', '\tendm', '\tm ' + ','.join(args)], ['\tdb 99,%d' % n], 'argcount')
        if n:
            yield pair(['m\tmacro', '\tdb ALLARGS', '\tendm', '\tm ' + ','.join(args)], ['\tdb ' + ','.join(args)], 'allargs')
        yield pair(['m\tmacro A,B', '\tdb 99,ARGCOUNT', '\tendm', '\tm ' + ','.join(args)], ['\tdb 99,%d' % n], 'argcount-named')


# ---- (b) substitution boundaries -----------------------------------------------------------------

def boundary_cases():
    pre = ['AB\tequ 77', 'BA\tequ 78', 'A1\tequ 79', 'A_B\tequ 80', 'AA\tequ 81', 'XA\tequ 82', 'V1\tequ 83', 'V12\tequ 84', 'V\tequ 85']
    idents = ['A', 'AB', 'BA', 'A1', 'A_B', 'AA', 'XA', '1', '"A"']
    for par, arg in (('A', '5'), ('V', '6'), ('a', '7')):
        ids = [x.replace('A', par.upper()) if par.upper() != 'A' and x in ('A',) else x for x in idents] + ([par.upper() + '1', par.upper() + '12'] if par.upper() == 'V' else [])
        for n in (1, 2, 3):
            for combo in itertools.product(ids, repeat=n):
                if '"A"' in combo and par.upper() == 'A':
                    continue
                line = '\tdb ' + ','.join(combo)
                for trail in ('', ' ', ' ; c'):
                    body = [line + trail]
                    exp = [subst(line, {par.upper(): arg}) + trail]
                    yield pair(pre + ['m\tmacro ' + par] + body + ['\tendm', '\tm ' + arg], pre + exp, 'substitution-boundary/macro')
                    if trail == '' and n <= 2:
                        yield pair(pre + ['\tirp %s,%s' % (par, arg)] + body + ['\tendm'], pre + exp, 'substitution-boundary/irp')
                        yield pair(pre + ['\tirpc %s,"%s"' % (par, arg)] + body + ['\tendm'], pre + exp, 'substitution-boundary/irpc')


# ---- (c) repetition --------------------------------------------------------------------------------

def repetition_cases():
    for n in (0, 1, 2, 3, 40):
        yield pair(['\trept %d' % n, '\tdb 1,2', '\tendm', '\tdb 9'], ['\tdb 1,2'] * n + ['\tdb 9'], 'rept')
    for n in range(0, 4):
        lst = [str(10 + i) for i in range(n)]
        if n:
            yield pair(['\tirp X,' + ','.join(lst), '\tdb X,1', '\tendm', '\tdb 9'], ['\tdb %s,1' % x for x in lst] + ['\tdb 9'], 'irp')
    for g in (1, 2, 3, 4):
        names = ['X%d' % i for i in range(g)]
        for ln in range(g, 10):
            lst = [str(10 + i) for i in range(ln)]
            exp = []
            for i in range(0, ln, g):
                grp = lst[i:i + g]
                if len(grp) < g:
                    break      # ragged tail: incomplete batches are the domain edge; only complete batches are demanded
                exp.append('\tdb ' + ','.join(grp))
            if ln % g == 0:
                yield pair(['\tirpn %d,%s,%s' % (g, ','.join(names), ','.join(lst)), '\tdb ' + ','.join(names), '\tendm', '\tdb 9'], exp + ['\tdb 9'], 'irpn/g=%d' % g)
    for s in ('', 'a', 'ab', 'abc', 'a b', 'a,b'):      # (no character: no iteration)
        if True:
            yield pair(['\tirpc C,"%s"' % s, "\tdb 'C'", '\tdb 7', '\tendm', '\tdb 9'], [x for c in s for x in ("\tdb '%s'" % c, '\tdb 7')] + ['\tdb 9'], 'irpc')
    for n in (0, 1, 3):
        yield pair(['cnt\tset 0', '\twhile cnt<%d' % n, '\tdb cnt', 'cnt\tset cnt+1', '\tendm', '\tdb 9'], ['\tdb %d' % i for i in range(n)] + ['\tdb 9'], 'while')
    # EXITM at every body position of a 3-line macro / rept body
    for pos in range(0, 4):
        body = ['\tdb 1', '\tdb 2', '\tdb 3']
        b2 = body[:pos] + ['\texitm'] + body[pos:]
        yield pair(['m\tmacro'] + b2 + ['\tendm', '\tm', '\tdb 9'], body[:pos] + ['\tdb 9'], 'exitm/macro')
        b3 = body[:pos] + ['\tif 1', '\texitm', '\tendif'] + body[pos:]
        yield pair(['m\tmacro'] + b3 + ['\tendm', '\tm', '\tdb 9'], body[:pos] + ['\tdb 9'], 'exitm/macro-in-if')
        yield pair(['\tif 1', 'm\tmacro'] + b3 + ['\tendm', '\tm', '\tdb 8', '\tendif', '\tdb 9'], body[:pos] + ['\tdb 8', '\tdb 9'], 'exitm/if-restored')
    # SHIFT
    for n in range(0, 4):
        args = ['11', '12', '13', '14']
        body = ['\tdb A'] + ['\tshift', '\tdb A'] * n
        exp = ['\tdb %s' % args[i] for i in range(n + 1)]
        yield pair(['m\tmacro A,B,C,D'] + body + ['\tendm', '\tm ' + ','.join(args)], exp, 'shift')
    # SHIFT with F formal parameters and N arguments, K times: the values move up by one each time (a parameter beyond the end
    # of the list becomes empty), ARGCOUNT counts the arguments that are left, ALLARGS lists them
    for F in (1, 2, 3):
        for N in range(0, 5):
            for K in range(0, 4):
                args = [str(21 + i) for i in range(N)]
                names = ['P%d' % i for i in range(F)]
                body, exp = [], []
                left = list(args)
                for k in range(K + 1):
                    # (ALLARGS after a SHIFT is compared only when every parameter got an argument: whether the defaults of
                    # parameters without argument then count as arguments is not defined by the manual)
                    alla = k == 0 or N >= F
                    body += ['\tdb ARGCOUNT', '\tdb 100,' + ','.join('%s+0' % x for x in names)] + (['\tdb 101,ALLARGS+0'] if alla else [])
                    vals = [(left[i] if i < len(left) else '') for i in range(F)]
                    exp += ['\tdb %d' % len(left), '\tdb 100,' + ','.join('%s+0' % v for v in vals)] + (['\tdb 101,' + ','.join(left) + '+0'] if alla else [])
                    if k < K:
                        body.append('\tshift')
                        left = left[1:]
                yield pair(['m\tmacro ' + ','.join(names)] + body + ['\tendm', '\tm ' + ','.join(args), '\tdb 9'], exp + ['\tdb 9'], 'shift/formals-vs-arguments')
    # the same with empty arguments in every position: they are arguments, ARGCOUNT counts them and ALLARGS keeps their commas
    for args in itertools.product(('', '5', '66'), repeat=3):
        for K in range(0, 3):
            body, exp = [], []
            left = list(args)
            for k in range(K + 1):
                body += ['\tdb ARGCOUNT', '\tdb 102,"ALLARGS",0']
                exp += ['\tdb %d' % len(left), '\tdb 102,"%s",0' % ','.join(left)]
                if k < K:
                    body.append('\tshift')
                    left = left[1:]
            yield pair(['m\tmacro P0,P1,P2'] + body + ['\tendm', '\tm ' + ','.join(args), '\tdb 9'], exp + ['\tdb 9'], 'shift/empty-arguments')
    # a construct without body lines (or with zero repetitions) inside a macro body must leave the macro's local labels private
    for empty, tag in ((['e\tmacro', '\tendm'], 'macro'), ([], 'rept0'), ([], 'rept-empty'), ([], 'irp-empty'), ([], 'while0')):
        call = {'macro': ['\te'], 'rept0': ['\trept 0', '\tdb 5', '\tendm'], 'rept-empty': ['\trept 2', '\tendm'], 'irp-empty': ['\tirp Q,1,2', '\tendm'],
                'while0': ['\twhile 0', '\tdb 5', '\tendm']}[tag]
        for pos in (0, 1):
            inner = ['lab:\tdb 1', '\tdw lab']
            b = call + inner if pos == 0 else inner + call + ['lab2:\tdb 2', '\tdw lab2']
            h1 = ['l1:\tdb 1', '\tdw l1'] + (['l1b:\tdb 2', '\tdw l1b'] if pos else [])
            h2 = ['l2:\tdb 1', '\tdw l2'] + (['l2b:\tdb 2', '\tdw l2b'] if pos else [])
            yield pair(empty + ['o\tmacro'] + b + ['\tendm', '\to', '\to', '\tdb 9'], h1 + h2 + ['\tdb 9'], 'empty-body-inside-macro/' + tag)
    # SHIFT inside a repetition nested in the macro body acts on the macro's arguments
    yield pair(['m\tmacro A,B,C', '\tdb A', '\trept 1', '\tshift', '\tendm', '\tdb A', '\tendm', '\tm 1,2,3'], ['\tdb 1', '\tdb 2'], 'shift/in-rept')
    yield pair(['m\tmacro A,B,C', '\tif 1', '\tshift', '\tendif', '\tdb A', '\tendm', '\tm 1,2,3'], ['\tdb 2'], 'shift/in-if')
    yield pair(['m\tmacro A,B,C', 'k\tset 0', '\twhile k<1', '\tshift', 'k\tset k+1', '\tendm', '\tdb A', '\tendm', '\tm 1,2,3'], ['k\tset 0', 'k\tset k+1', '\tdb 2'], 'shift/in-while')
    yield pair(['m\tmacro A,B,C', '\tirp Z,7', '\tshift', '\tdb Z', '\tendm', '\tdb A', '\tendm', '\tm 1,2,3'], ['\tdb 7', '\tdb 2'], 'shift/in-irp')
    # recursion (manual's pushlist pattern)
    yield pair(['m\tmacro A', '\tif "A"<>""', '\tdb A', '\tshift', '\tm ALLARGS', '\tendif', '\tendm', '\tm 1,2,3'], ['\tdb 1', '\tdb 2', '\tdb 3'], 'recursion')
    # local labels: private per expansion, visible with GLOBALSYMBOLS
    yield pair(['m\tmacro', 'lab:\tdb 1', '\tdw lab', '\tendm', '\tm', '\tm'], ['l1:\tdb 1', '\tdw l1', 'l2:\tdb 1', '\tdw l2'], 'local-labels/macro')
    yield pair(['\trept 2', 'lab:\tdb 1', '\tdw lab', '\tendm'], ['l1:\tdb 1', '\tdw l1', 'l2:\tdb 1', '\tdw l2'], 'local-labels/rept')
    yield pair(['m\tmacro {GLOBALSYMBOLS}', 'glab:\tdb 1', '\tendm', '\tm', '\tdw glab'], ['glab:\tdb 1', '\tdw glab'], 'globalsymbols')
    yield pair(['m\tmacro', 'lab:\tdb 1', '\tendm', 'lab:\tdb 7', '\tm', '\tdw lab'], ['lab:\tdb 7', 'l1:\tdb 1', '\tdw lab'], 'local-labels/outer-same-name')
    # a label of an enclosing body is visible in the bodies nested in it (1, 2 and 3 levels down), also when a global label has the same name
    for glob in (0, 1):
        pre = ['entry:\tdb 7'] if glob else []
        for inner, n in ((['\trept 2', '\tdw entry', '\tendm'], 2), (['\tirp q,1,2', '\tdw entry', '\tendm'], 2), (['\tirpc q,"ab"', '\tdw entry', '\tendm'], 2),
                         (['\trept 1', '\trept 2', '\tdw entry', '\tendm', '\tendm'], 2), (['\trept 1', '\tirp q,1', '\trept 2', '\tdw entry', '\tendm', '\tendm', '\tendm'], 2)):
            yield pair(pre + ['m\tmacro', 'entry:\tdb 1'] + inner + ['\tendm', '\tm', '\tm'],
                       [l.replace('entry', 'gentry') for l in pre] + ['e1:\tdb 1'] + ['\tdw e1'] * n + ['e2:\tdb 1'] + ['\tdw e2'] * n, 'local-labels/enclosing-body')
            yield pair(pre + ['\trept 2', 'entry:\tdb 1'] + inner + ['\tendm'],
                       [l.replace('entry', 'gentry') for l in pre] + ['e1:\tdb 1'] + ['\tdw e1'] * n + ['e2:\tdb 1'] + ['\tdw e2'] * n, 'local-labels/enclosing-body-rept')


# ---- (d) nesting -----------------------------------------------------------------------------------

CON = ['MACRO', 'REPT', 'IRP', 'IRPN', 'IRPC', 'WHILE', 'INCLUDE']


def wrap(kind, lvl, inner_prog, inner_hand, files):
    """returns (prog lines, hand lines) of construct `kind` around the inner lines (each expanded twice where it repeats)"""
    v = 'V%d' % lvl
    if kind == 'MACRO':
        return ['m%d\tmacro %s' % (lvl, v)] + inner_prog + ['\tdb %s' % v, '\tendm', '\tm%d %d' % (lvl, 40 + lvl)], inner_hand + ['\tdb %d' % (40 + lvl)]
    if kind == 'REPT':
        return ['\trept 2'] + inner_prog + ['\tdb %d' % (50 + lvl), '\tendm'], (inner_hand + ['\tdb %d' % (50 + lvl)]) * 2
    if kind == 'IRP':
        return ['\tirp %s,%d,%d' % (v, 60 + lvl, 70 + lvl)] + inner_prog + ['\tdb %s' % v, '\tendm'], inner_hand + ['\tdb %d' % (60 + lvl)] + inner_hand + ['\tdb %d' % (70 + lvl)]
    if kind == 'IRPN':
        return ['\tirpn 2,%s,W%d,1,2,3,4' % (v, lvl)] + inner_prog + ['\tdb %s,W%d' % (v, lvl), '\tendm'], inner_hand + ['\tdb 1,2'] + inner_hand + ['\tdb 3,4']
    if kind == 'IRPC':
        return ['\tirpc %s,"12"' % v] + inner_prog + ['\tdb %s' % v, '\tendm'], inner_hand + ['\tdb 1'] + inner_hand + ['\tdb 2']
    if kind == 'WHILE':
        c = 'c%d' % lvl
        return ['%s\tset 0' % c, '\twhile %s<2' % c] + inner_prog + ['\tdb %s' % c, '%s\tset %s+1' % (c, c), '\tendm'], inner_hand + ['\tdb 0'] + inner_hand + ['\tdb 1']
    if kind == 'INCLUDE':
        name = 'inc%d.inc' % lvl
        files[name] = '\n'.join(inner_prog + ['\tdb %d' % (80 + lvl)]) + '\n'
        return ['\tinclude "%s"' % name], inner_hand + ['\tdb %d' % (80 + lvl)]


def nesting_cases(depth):
    for combo in itertools.product(CON, repeat=depth):
        files = {}
        prog, hand = ['\tdb 7'], ['\tdb 7']
        ok = True
        # a macro DEFINITION inside a repeated body would be defined once per repetition: not a transparency question
        for i, kind in enumerate(combo):
            if kind == 'MACRO' and any(k in ('REPT', 'IRP', 'IRPN', 'IRPC', 'WHILE') for k in combo[:i]):
                ok = False
        for lvl, kind in enumerate(reversed(combo)):
            prog, hand = wrap(kind, lvl, prog, hand, files)
        # WHILE counters inside repeated bodies: re-initialised per outer iteration by construction (set 0 inside)
        if ok:
            c = pair(prog, hand, 'nesting/' + '>'.join(combo))
            c['files'] = files
            yield c


# ---- (e) BINCLUDE, (f) side effects --------------------------------------------------------------

def binclude_cases():
    for flen in (0, 1, 5):
        data = bytes(range(1, flen + 1))
        for off in (None, 0, 1, 5, 6):
            for ln in (None, 0, 1, 4, 5, 6):
                if ln is not None and off is None:
                    continue
                o = off or 0
                if o > flen:
                    continue
                n = flen - o if ln is None else ln
                if o + n > flen:
                    continue
                args = '"bin.dat"' + (',%d' % off if off is not None else '') + (',%d' % ln if ln is not None else '')
                sel = data[o:o + n]
                c = pair(['\tdb 0eeh', '\tbinclude ' + args, '\tdb 0ddh'], ['\tdb 0eeh'] + (['\tdb ' + ','.join(str(b) for b in sel)] if sel else []) + ['\tdb 0ddh'], 'binclude')
                c['files'] = {'bin.dat': data.decode('latin-1')}
                yield c


def binclude_big_cases():
    """BINCLUDE of files around the 256-byte copy chunk and across the 64 KiB record limit (68000: more than 64 KiB of address space),
    at start addresses that put the record limit inside the included file"""
    for flen in (255, 256, 257, 513, 65535, 65536, 65537, 70000):
        for start, before in ((0x1000, 1), (0x1000, 600), (0xfff0, 3)):
            if flen < 60000 and before != 1:
                continue
            data = bytes((i * 7 + 3) & 0xff for i in range(flen))
            hand = ['\tdc.b ' + ','.join(str(b) for b in data[i:i + 32]) for i in range(0, flen, 32)]
            pre = ['\tpadding off', '\torg $%x' % start, '\tdc.b ' + ','.join(['$ee'] * min(before, 16))] + (['\tdc.b [%d]$ee' % (before - 16)] if before > 16 else [])
            c = {'prog': ['\tcpu 68000'] + pre + ['\tbinclude "big.dat"', '\tdc.b $dd'], 'hand': ['\tcpu 68000'] + pre + hand + ['\tdc.b $dd'], 'tag': 'binclude/record-limit'}
            c['files'] = {'big.dat': data.decode('latin-1')}
            yield c


def longline_cases():
    """body lines whose expansion is as long as the line buffers are (1024 characters and the sizes they grow to), one shorter
    and one longer: the expansion is the same text as the hand-written line"""
    for wrap in ('macro', 'irp'):
        for total in list(range(1018, 1030)) + list(range(1148, 1156)) + [1279, 1280, 1281, 2047, 2048, 2049]:
            # the expanded line is  <blank>dw <expr>,4660  with <expr> = 1+1+...+1  (a blank: TABs of a stored body line are expanded)
            fixed = len(' dw ') + len(',4660')
            n = (total - fixed + 1) // 2          # ones
            expr = '+'.join(['1'] * n)
            line = ' dw ' + expr + ',4660'
            if len(line) != total:
                expr = '0' + expr          # one character more: 01+1+...
                line = ' dw ' + expr + ',4660'
                if len(line) != total:
                    continue
            if wrap == 'macro':
                prog = ['m\tmacro P1', ' dw P1,4660', '\tendm', '\tm ' + expr, '\tdb 9']
            else:
                prog = ['\tirp P1,' + expr, ' dw P1,4660', '\tendm', '\tdb 9']
            yield pair(prog, [line, '\tdb 9'], 'expansion-as-long-as-the-line-buffer/%s' % wrap)


def globalsymbols_cases():
    """a repetition with {GLOBALSYMBOLS} (its labels are not private) inside a body whose labels are: when the inner construct
    ends, the outer body's label scope is still the outer body's - labels behind the inner ENDM stay private per expansion"""
    inners = {'rept': ['\trept 2,{GLOBALSYMBOLS}', '\tdb 3', '\tendm'], 'irp': ['\tirp Q,{GLOBALSYMBOLS},4,5', '\tdb Q', '\tendm'],
              'irpc': ['\tirpc Q,{GLOBALSYMBOLS},"67"', "\tdb 'Q'", '\tendm'],
              'while': ['cnt\tset 0', '\twhile cnt<2,{GLOBALSYMBOLS}', '\tdb 8', 'cnt\tset cnt+1', '\tendm']}
    hands = {'rept': ['\tdb 3', '\tdb 3'], 'irp': ['\tdb 4', '\tdb 5'], 'irpc': ["\tdb '6'", "\tdb '7'"], 'while': ['\tdb 8', '\tdb 8']}
    for inner in sorted(inners):
        for outer in ('macro', 'rept', 'irp'):
            body = ['\tdw done'] + inners[inner] + ['done:\tdb 1', '\tdw done']
            if outer == 'macro':
                prog = ['m\tmacro'] + body + ['\tendm', '\tm', '\tm']
            elif outer == 'rept':
                prog = ['\trept 2'] + body + ['\tendm']
            else:
                prog = ['\tirp Z,1,2'] + body + ['\tendm']
            hand = []
            for k in (1, 2):
                hand += ['\tdw done%d' % k] + hands[inner] + ['done%d:\tdb 1' % k, '\tdw done%d' % k]
            yield pair(prog + ['\tdb 9'], hand + ['\tdb 9'], 'globalsymbols-construct-inside-a-private-body/%s-in-%s' % (inner, outer))


def globalcopy_cases():
    """a macro defined with {GLOBAL} inside a section is also known outside under <section>_<name>: calling it there expands
    the same body (also repeatedly, with parameters, with private labels)"""
    for body, hand1, hand2 in ((['\tdb X'], ['\tdb 1'], ['\tdb 2']), (['lab:\tdb X', '\tdw lab'], ['l1:\tdb 1', '\tdw l1'], ['l2:\tdb 2', '\tdw l2']),
                               (['\tdb X', '\tdb ARGCOUNT'], ['\tdb 1', '\tdb 1'], ['\tdb 2', '\tdb 1'])):
        for inside in (0, 1):
            prog = ['\tsection s1', 'm\tmacro {GLOBAL},X'] + body + ['\tendm'] + (['\tm 7'] if inside else []) + ['\tendsection', '\ts1_m 1', '\ts1_m 2', '\tdb 9']
            hand = ([h.replace('1', '7').replace('l7', 'l0') if h.startswith('\tdb 1') or 'l1' in h else h for h in hand1] if inside else [])
            hand = ([x.replace('\tdb 1', '\tdb 7', 1) if i == 0 else x for i, x in enumerate([y.replace('l1', 'l0') for y in hand1])] if inside else []) + hand1 + hand2 + ['\tdb 9']
            yield pair(prog, hand, 'global-copy-of-a-section-macro')


def binclude_word_cases():
    """BINCLUDE on targets whose address unit holds two or four bytes: the file's bytes fill units (the last one padded with
    zeros), what follows continues at the next unit"""
    for cpu, unit, stmt in (('320c25', 2, 'word'), ('320c30', 4, 'word'), ('atmega8', 2, 'data'), ('16c84', 2, 'data')):
        for flen in (1, 2, 3, 4, 7, 8, 9, 256, 258, 515):
            data = bytes((i * 5 + 1) & (0x3f if cpu == '16c84' and i % 2 else 0xff) for i in range(flen))
            padded = data + b'\0' * (-flen % unit)
            words = [int.from_bytes(padded[i:i + unit], 'little') for i in range(0, len(padded), unit)]
            hand = ['\t%s %s' % (stmt, ','.join(str(w) for w in words[i:i + 16])) for i in range(0, len(words), 16)]
            c = {'prog': ['\tcpu ' + cpu, '\torg 16', '\t%s 21' % stmt, '\tbinclude "w.dat"', '\t%s 22' % stmt],
                 'hand': ['\tcpu ' + cpu, '\torg 16', '\t%s 21' % stmt] + hand + ['\t%s 22' % stmt], 'tag': 'binclude/word-addressed-target'}
            c['files'] = {'w.dat': data.decode('latin-1')}
            yield c


def sideeffect_cases():
    S = [
        # predefined symbols changed in a body are read after it
        (['\tcpu z80'], 'cpu-then-momcpu', ['\tdw MOMCPU']),
        (['\tcpu 8085'], 'cpu-then-momcpuname', ['\tdb MOMCPUNAME']),
        (['\tcpu 68000', '\tpadding off', '\tpadding on', '\tpadding off'], 'flag-thrice-then-read', ['\tdc.b PADDING']),
        (['\tlisting off', '\tlisting on'], 'listing-twice-then-read', ['\tdb LISTON']),
        (['\tlisting off'], 'listing-off-then-read', ['\tdb LISTON']),
        (['\tcpu z80', '\tdb 1', '\tcpu 8080', '\tdb 2'], 'cpu-twice'),
        (['\tcpu 8085', '\tdb 1'], 'cpu-once'),
        (['\torg 100h', '\tdb 1'], 'org'),
        (['\tphase 200h', 'pl:\tdb 1', '\tdw pl', '\tdephase', '\tdb 2'], 'phase'),
        (["\tcharset 'a','b','x'", '\tdb "ab"', '\tcharset', '\tdb "ab"'], 'charset'),
        (['\tsave', '\tcpu z80', '\tdb 1', '\trestore', '\tdb 2'], 'save-restore'),
        (['\tradix 16', '\tdb 10', '\tradix 10', '\tdb 10'], 'radix'),
    ]
    for ent in S:
        body, tag = ent[0], ent[1]
        tail = (ent[2] if len(ent) > 2 else []) + ['\tdb 9']
        hb = [l.replace('pl:', 'plh:').replace('dw pl', 'dw plh') for l in body]
        yield pair(['m\tmacro'] + body + ['\tendm', '\tm'] + tail, hb + tail, 'side-effect/' + tag)
        yield pair(['\trept 1'] + body + ['\tendm'] + tail, hb + tail, 'side-effect-rept/' + tag)


def subspaces(tier):
    q = tier == 'quick'
    ps = [0, 1, 2, 3, 8, 9, 12, 20] if q else list(range(0, 21))
    subs = [('a:macro-parameters', macro_param_cases(ps)), ('b:substitution-boundaries', boundary_cases()), ('c:repetition-exitm-shift-labels', list(repetition_cases())),
            ('d:nesting-pairs', nesting_cases(2))]
    if not q:
        subs.append(('d:nesting-triples', nesting_cases(3)))
    subs += [('e:binclude', list(binclude_cases()) + list(binclude_big_cases()) + list(binclude_word_cases())), ('f:side-effects-in-bodies', list(sideeffect_cases())),
             ('g:expansions-at-line-buffer-sizes', list(longline_cases())), ('h:globalsymbols-inside-private-bodies', list(globalsymbols_cases()) + list(globalcopy_cases()))]
    return subs


def describe(case):
    return ' / '.join(l.strip().replace('\t', ' ') for l in case['prog'][1:])


def run1(lines, files):
    core.fresh()
    for n, c in files.items():
        core.put(n, c)
    core.put('a.asm', '\n'.join(lines) + '\n')
    o = core.run('asl', ['-q', 'a.asm'])
    return o, core.get('a.p')


def image(p):
    m = {}
    for r in pfile.data_records(pfile.read(p)):
        for i, b in enumerate(r.data):
            m[(r.seg, r.start * r.gran + i)] = b        # (byte address: start is counted in address units)
    return m


def evaluate(case):
    files = case.get('files', {})
    o2, p2 = run1(case['hand'], files)
    d = describe(case)
    if core.crashkind(o2):
        return core.R(False, 'crash', 'crash/hand/' + case['tag'], 'crash on the hand expansion of ' + d, transitions=1)
    if o2.rc != 0 or p2 is None:
        return core.R(True, 'hand-expansion-invalid', nontrivial=False, transitions=1)
    o1, p1 = run1(case['prog'], files)
    ck = core.crashkind(o1)
    if ck:
        return core.R(False, ck, 'crash/%s/%s' % (ck, case['tag']), '%s on %s' % (ck, d), transitions=2)
    if o1.rc != 0 or p1 is None:
        return core.R(False, 'construct-rejected', 'rejected/' + case['tag'], 'hand expansion assembles, the construct program does not: %s on %s' % ((o1.out + o1.err)[-160:].decode('latin-1'), d), transitions=2)
    i1, i2 = image(p1), image(p2)
    if i1 != i2:
        diff = sorted(set(i1) | set(i2), key=lambda k: k)
        bad = [k for k in diff if i1.get(k) != i2.get(k)][:4]
        return core.R(False, 'differs', 'differs/' + case['tag'], 'code differs at %s: construct %s, hand expansion %s on %s\nhand: %s' % (bad, [i1.get(k) for k in bad], [i2.get(k) for k in bad], d, ' / '.join(l.strip() for l in case['hand'][1:])), transitions=2)
    return core.R(True, 'same-code', states=[case['tag']], transitions=2)
