import itertools, os, subprocess, sys, tempfile, shutil, collections, struct
from multiprocessing import Pool
sys.path.insert(0,'/tmp/w/s')
from pdump import parse
ASL='/repo/_build/asl'
# trees: list of parent indices, node 0 = global. names S1..Sn unique.
def trees(n):
    # all rooted ordered trees with n section nodes (plus global root 0), parent[i]<i, nested properly in DFS order
    res=[]
    def rec(par):
        i=len(par)
        if i==n+1: res.append(list(par)); return
        # candidates: ancestors chain of previous node (DFS preorder constraint)
        prev=i-1; cand=[]; x=prev
        while True:
            cand.append(x)
            if x==0: break
            x=par[x]
        for c in cand: rec(par+[c])
    rec([None]); return res
def children(par,i): return [j for j in range(1,len(par)) if par[j]==i]
def path(par,i):
    p=[]
    while i is not None: p.append(i); i=par[i]
    return p   # i, parent, ..., 0
def gen_program(par,defs,defpos):
    """defs: set of nodes defining sym (value 0x10+node); defpos[node] in ('before','after'). returns source, list of (refid, expected value or None)"""
    lines=['\tcpu 8086']; refs=[]
    rid=[0]
    def emit_refs(node):
        forms=['sym','sym[]']+['sym[S%d]'%j for j in range(1,len(par))]+['sym[PARENT%d]'%k for k in range(0,4)]+['sym[PARENT]']
        for f in forms:
            exp=resolve(par,defs,node,f)
            if exp is None: continue   # illegal -> skip in this prototype
            lines.append('\torg %d'%(0x100+rid[0]*4)); lines.append('\tdw %s'%f); refs.append((rid[0],node,f,exp)); rid[0]+=1
    def walk(node):
        if node in defs and defpos[node]=='before': lines.append('sym\tequ %d'%(0x10+node))
        emit_refs(node)
        for c in children(par,node):
            lines.append('\tsection S%d'%c); walk(c); lines.append('\tendsection S%d'%c)
        if node in defs and defpos[node]=='after': lines.append('sym\tequ %d'%(0x10+node))
    walk(0)
    return '\n'.join(lines)+'\n',refs
def resolve(par,defs,node,form):
    p=path(par,node)
    if form=='sym':
        for a in p:
            if a in defs: return 0x10+a
        return None
    if form=='sym[]': return 0x10 if 0 in defs else None
    if form.startswith('sym[PARENT'):
        k=form[10:-1]; k=1 if k=='' else int(k)
        if k>=len(p): return None
        t=p[k]
        return 0x10+t if t in defs else None
    j=int(form[5:-1])
    if j not in p: return None   # only parent path sections allowed
    return 0x10+j if j in defs else None
base=tempfile.mkdtemp(dir='/dev/shm')
def run(job):
    par,defs,defpos=job
    src,refs=gen_program(par,defs,defpos)
    d=os.path.join(base,str(os.getpid())); os.makedirs(d,exist_ok=True)
    if os.path.exists(d+'/a.p'): os.unlink(d+'/a.p')
    open(d+'/a.asm','w').write(src)
    r=subprocess.run([ASL,'-q','a.asm'],cwd=d,capture_output=True,env={'LC_ALL':'C'},timeout=5)
    if r.returncode!=0: return job,'rc%d %s'%(r.returncode,r.stderr.decode().split('\n')[0][-60:])
    recs={x[5]:x[7] for x in parse(open(d+'/a.p','rb').read()) if x[0]=='data'}
    bad=[]
    for rid,node,f,exp in refs:
        b=recs.get(0x100+rid*4); got=struct.unpack('<H',b)[0] if b else None
        if got!=exp: bad.append((node,f,exp,got))
    return job,('ok %d'%len(refs) if not bad else 'BAD %s'%bad[:3])
if __name__=='__main__':
    n=int(sys.argv[1]); jobs=[]
    for k in range(0,n+1):
        for par in trees(k):
            nodes=list(range(k+1))
            for r in range(0,len(nodes)+1):
                for defs in itertools.combinations(nodes,r):
                    for pos in itertools.product(('before','after'),repeat=len(defs)):
                        jobs.append((par,set(defs),dict(zip(defs,pos))))
    print(len(jobs),'programs')
    with Pool(16) as p: rs=p.map(run,jobs,chunksize=20)
    c=collections.Counter(r.split(' ')[0] for _,r in rs); print(c)
    print('refs checked',sum(int(r.split()[1]) for _,r in rs if r.startswith('ok')))
    sh=0
    for j,r in rs:
        if not r.startswith('ok') and sh<8: sh+=1; print(j,r[:200])
    shutil.rmtree(base)
