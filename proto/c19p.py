import os, subprocess, sys, tempfile, shutil, collections, re
from multiprocessing import Pool
sys.path.insert(0,'/tmp/w/s')
from pdump import parse
ASL='/repo/_build/asl'; T='/repo/tests'
tests=sorted(t for t in os.listdir(T) if os.path.exists(os.path.join(T,t,t+'.asm')))
def flags(t):
    p=os.path.join(T,t,'asflags'); return open(p).readline().split() if os.path.exists(p) else []
base=tempfile.mkdtemp(dir='/dev/shm')
LINE=re.compile(r'^(?:\((\d+)\))?\s*(\d+)/\s*([0-9A-F]+) :(.{0,20}) ?(.*)$')
CONT=re.compile(r'^\s{6,}([0-9A-F]+) :(.*)$')
def run(t):
    d=tempfile.mkdtemp(dir=base)
    for f in os.listdir(os.path.join(T,t)):
        if not f.endswith('.ori') and f!='asflags' and not f.endswith('.doc'): shutil.copy(os.path.join(T,t,f),d)
    r=subprocess.run([ASL]+flags(t)+['-q','-L','-i','/repo/include',t+'.asm'],cwd=d,capture_output=True,env={'LC_ALL':'C'},timeout=60)
    if r.returncode!=0: shutil.rmtree(d); return t,'asl rc%d'%r.returncode
    recs=parse(open(d+'/'+t+'.p','rb').read())
    lst=open(d+'/'+t+'.lst',errors='replace').read().split('\n')
    shutil.rmtree(d)
    mem=collections.defaultdict(set)   # (addr)->set of (seg,gran,bytes tuple) unit-level
    grans=set()
    for x in recs:
        if x[0]!='data': continue
        g=x[4]; grans.add(g)
        for i in range(0,len(x[7]),g): mem[x[5]+i//g].add(bytes(x[7][i:i+g]))
    nl=0; bad=[]
    for ln in lst:
        m=LINE.match(ln); c=None
        if m: addr=int(m.group(3),16); code=m.group(4)
        else:
            c=CONT.match(ln)
            if not c: continue
            addr=int(c.group(1),16); code=c.group(2)
        toks=code.split()
        if not toks or not all(re.fullmatch(r'[0-9A-F]+',x) for x in toks): continue
        if toks==['=']: continue
        # each token is one listing unit of len(tok)/2 bytes, big-endian display
        a=addr
        for tk in toks:
            if len(tk)%2: bad.append((ln[:60],'odd token')); break
            nb=len(tk)//2
            nl+=1
            val=bytes.fromhex(tk)
            # match: assume listing gran == nb bytes; code gran g: if nb==g, units; unit value displayed as number => file bytes could be LE or BE
            ok=False
            for g in grans or {1}:
                if nb==g:
                    if val in mem.get(a,()) or val[::-1] in mem.get(a,()): ok=True; step=1
                elif g==1:
                    bs=[mem.get(a+i,set()) for i in range(nb)]
                    if all(bytes([val[i]]) in bs[i] for i in range(nb)) or all(bytes([val[nb-1-i]]) in bs[i] for i in range(nb)): ok=True; step=nb
            if not ok:
                bad.append((ln[:70],'unit %s at %x not in code file'%(tk,a))); break
            a+=step
    return t,('ok %d'%nl if not bad else 'BAD %d/%d %s'%(len(bad),nl,bad[:2]))
if __name__=='__main__':
    with Pool(16) as p: rs=p.map(run,tests)
    c=collections.Counter(r.split(' ')[0] for _,r in rs); print(c)
    print('units checked',sum(int(r.split()[1]) for _,r in rs if r.startswith('ok')))
    for t,r in rs:
        if not r.startswith('ok'): print(t,r[:260])
    shutil.rmtree(base)
