#!/usr/bin/env python3
"""Runs every seeded change under /verif/seeded against the quick check of the property it breaks (in a scratch worktree,
equivalent to `git -C /repo apply` + check + `git checkout -- .`) and records the outcome in its meta.json."""
import json, os, re, subprocess, sys
ROOT = os.path.dirname(os.path.dirname(os.path.abspath(__file__)))
BASES = {}   # name -> base commit when the patch no longer applies on HEAD because a later fix: commit rewrote the patched code
only = sys.argv[1:]
head = subprocess.run(['git', '-C', '/repo', 'rev-parse', '--short', 'HEAD'], capture_output=True, text=True).stdout.strip()
for name in sorted(os.listdir(os.path.join(ROOT, 'seeded'))):
    if only and name not in only:
        continue
    d = os.path.join(ROOT, 'seeded', name)
    meta = json.load(open(os.path.join(d, 'meta.json')))
    prop = meta['property']
    slot = os.environ.get('SEED_SLOT', '3')   # SEED_SLOT=n lets several sweeps run side by side
    env = dict(os.environ, MUT_SLOT=slot)
    env.pop('MUT_BASE', None)
    head = subprocess.run(['git', '-C', '/repo', 'rev-parse', '--short', 'HEAD'], capture_output=True, text=True).stdout.strip()
    base = head
    # does the patch still apply on HEAD?
    chk = subprocess.run(['git', '-C', '/repo', 'apply', '--check', os.path.join(d, 'patch.diff')], capture_output=True)
    meta.pop('apply_on', None)
    meta.pop('apply_note', None)
    if chk.returncode != 0:
        base = meta['confirmed']['repo_commit']
        meta['apply_on'] = base
        meta['apply_note'] = 'no longer applies on the current tree: a later fix: commit rewrote the code it changes; run against its base commit'
    if meta.get('run_on'):
        # the change is behaviour-preserving on the current tree (a later fix: commit made the code it relies on redundant):
        # it is run on the last commit on which it breaks the property
        base = meta['run_on']
    already = set()
    if base != head:
        env['MUT_BASE'] = base
        # what the check reports on that older tree WITHOUT the change (defects repaired since) is not credited to the change
        key = (base, prop)
        if key not in BASES:
            noop = os.path.join(ROOT, 'tools', 'noop.diff')
            r0 = subprocess.run([os.path.join(ROOT, 'tools', 'try_mutant.sh'), noop, prop, 'quick'], capture_output=True, text=True, env=env)
            BASES[key] = set(re.findall(r'signature=(\S+)', open('/dev/shm/mutrun%s/out.txt' % slot).read()))
        already = BASES[key]
    r = subprocess.run([os.path.join(ROOT, 'tools', 'try_mutant.sh'), os.path.join(d, 'patch.diff'), prop, 'quick'], capture_output=True, text=True, env=env)
    out = open('/dev/shm/mutrun%s/out.txt' % slot).read()
    if ' tier=quick ' not in out:
        # the check did not run to its summary (worktree not clean, patch rejected, build failure): not a result
        print(name, prop, 'NOT RUN:', (r.stdout + r.stderr).strip().split('\n')[-1][:200], flush=True)
        continue
    sigs = [x for x in re.findall(r'signature=(\S+)', out) if x not in already]
    m = re.search(r'(\d+)', str(len(sigs)))
    meta['detected_by'] = {prop: {'tier': 'quick', 'violation_signatures': len(sigs), 'signatures': sigs[:5], 'checked_at_repo_commit': base,
                                  'command': 'tools/try_mutant.sh seeded/%s/patch.diff %s quick' % (name, prop)}}
    json.dump(meta, open(os.path.join(d, 'meta.json'), 'w'), indent=1)
    print(name, prop, 'violations', m.group(1) if m else '?', sigs[:2], flush=True)
