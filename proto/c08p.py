import itertools, os, subprocess, sys, tempfile, shutil, collections, struct, math
sys.path.insert(0,'/tmp/w/s')
from pdump import parse
ASL='/repo/_build/asl'
M=1<<64
def wrap(x):
    x%=M
    return x-M if x>=1<<63 else x
INTS=[0,1,-1,2,3,7,31,32,63,64,2**31-1,2**31,2**32,2**63-1,-2**63]
FLTS=[0.0,1.0,-1.0,2.0,-2.0,0.5,3.0,-3.0,1e308,1e-308]
def lit_i(v):
    if v==-2**63: return '(0-9223372036854775807-1)'
    return str(v) if v>=0 else '(0-%d)'%(-v)
def lit_f(v):
    s=repr(abs(v))
    if 'e' not in s and '.' not in s: s+='.0'
    return s if v>=0 and not math.copysign(1,v)<0 else '(0.0-%s)'%s
class Err(Exception): pass
def iop(op,a,b):
    if op=='+': return wrap(a+b)
    if op=='-': return wrap(a-b)
    if op=='*': return wrap(a*b)
    if op=='/':
        if b==0: raise Err()
        q=abs(a)//abs(b); q=q if (a<0)==(b<0) else -q
        return wrap(q)
    if op=='#':
        if b==0: raise Err()
        q=abs(a)//abs(b); q=q if (a<0)==(b<0) else -q
        return wrap(a-q*b)
    if op=='&': return wrap((a%M)&(b%M))
    if op=='|': return wrap((a%M)|(b%M))
    if op=='!': return wrap((a%M)^(b%M))
    if op=='<<':
        if not 0<=b<=63: return None
        return wrap((a%M)<<b)
    if op=='>>':
        if not 0<=b<=63 or a<0: return None
        return wrap((a%M)>>b)
    if op=='^':
        if b<0: return None   # manual silent
        return wrap(pow(a,b,M)) if b>=0 else None
    if op=='&&': return int(a!=0 and b!=0)
    if op=='||': return int(a!=0 or b!=0)
    if op=='!!': return int((a!=0)!=(b!=0))
    if op in('=','=='): return int(a==b)
    if op in('<>','!='): return int(a!=b)
    if op=='<': return int(a<b)
    if op=='>': return int(a>b)
    if op=='<=': return int(a<=b)
    if op=='>=': return int(a>=b)
    if op=='><':
        if not 1<=b<=32: raise Err()
        lo=a%M; r=(lo>>b)<<b
        for z in range(b):
            if lo&(1<<(b-1-z)): r|=1<<z
        return wrap(r)
IOPS=['+','-','*','/','#','&','|','!','<<','>>','^','&&','||','!!','=','==','<>','<','>','<=','>=','><']
FOPS=['+','-','*','/','^','=','==','<>','<','>','<=','>=']
def fop(op,a,b):
    try:
        if op=='+': return a+b
        if op=='-': return a-b
        if op=='*': return a*b
        if op=='/':
            if b==0: raise Err()
            return a/b
        if op=='^':
            if a<0 and b!=int(b): raise Err()
            if a==0 and b<0: return None
            return math.pow(a,b)
    except OverflowError: return None
    if op in('=','=='): return int(a==b)
    if op=='<>': return int(a!=b)
    if op=='<': return int(a<b)
    if op=='>': return int(a>b)
    if op=='<=': return int(a<=b)
    if op=='>=': return int(a>=b)
cases=[]
for op in IOPS:
    for a in INTS:
        for b in INTS:
            try: exp=iop(op,a,b)
            except Err: exp='ERR'
            if exp is None: continue
            cases.append(('%s%s%s'%(lit_i(a),op,lit_i(b)),exp))
for op in FOPS:
    for a in FLTS:
        for b in FLTS:
            try: exp=fop(op,a,b)
            except Err: exp='ERR'
            if exp is None: continue
            if isinstance(exp,float) and (math.isinf(exp) or math.isnan(exp)): continue
            cases.append(('%s%s%s'%(lit_f(a),op,lit_f(b)),exp))
print(len(cases),'cases')
def run_batch(cs,tag):
    d=tempfile.mkdtemp(dir='/dev/shm')
    src=['\tcpu 8086']
    for k,(e,_) in enumerate(cs): src+=['\torg %d'%(k*16),'\tdq %s'%e]
    open(d+'/a.asm','w').write('\n'.join(src)+'\n')
    r=subprocess.run([ASL,'-q','a.asm'],cwd=d,capture_output=True,env={'LC_ALL':'C'})
    res=(r.returncode,r.stderr.decode(), open(d+'/a.p','rb').read() if os.path.exists(d+'/a.p') else None)
    shutil.rmtree(d); return res
ok=[c for c in cases if c[1]!='ERR']; er=[c for c in cases if c[1]=='ERR']
# run ok individually batched in 500; on failure, bisect
bad=[]
def check(cs):
    rc,err,p=run_batch(cs,'x')
    if rc<0 or (rc!=0 and len(cs)>1):
        if len(cs)==1: bad.append((cs[0],'signal %d'%rc)); return
        h=len(cs)//2; check(cs[:h]); check(cs[h:]); return
    if rc!=0:
        bad.append((cs[0],'unexpected error: '+err.split('\n')[0][-50:])); return
    recs={x[5]:x[7] for x in parse(p) if x[0]=='data'}
    for k,(e,exp) in enumerate(cs):
        b=recs.get(k*16)
        if b is None or len(b)!=8: bad.append(((e,exp),'no/odd record %r'%b)); continue
        if isinstance(exp,float):
            got=struct.unpack('<d',b)[0]
            if got!=exp and not (abs(got-exp)<=abs(exp)*2**-52): bad.append(((e,exp),'got float %r'%got))
        else:
            got=struct.unpack('<q',b)[0]
            if got!=exp: bad.append(((e,exp),'got int %d (%s)'%(got,b.hex())))
for i in range(0,len(ok),400): check(ok[i:i+400])
# error cases: each alone in batch of lines; every line must be reported
rc,err,p=run_batch(er,'e')
import re
lines=set(int(m.group(1)) for m in re.finditer(r'a\.asm\((\d+)\)',err))
for k,(e,_) in enumerate(er):
    if 3+2*k not in lines: bad.append(((e,'ERR'),'no error reported'))
print(len(bad),'disagreements')
seen=collections.Counter()
for (e,exp),why in bad:
    key=re.sub(r'[0-9.e()-]+','N',e)+'|'+why.split(' ')[0]
    seen[key]+=1
    if seen[key]<=3: print(e,'expected',exp,'->',why)
print(seen.most_common(40))
