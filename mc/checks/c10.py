"""C10 - address bookkeeping: ORG, PHASE, segments, ALIGN, reservations, SAVE/RESTORE, CPU, structures.

Explicit-state exploration of histories of address-affecting statements.  The reference model keeps,
per segment, a load counter, a phase offset and a phase stack, plus the active segment, the CPU and the
SAVE stack.  Every history is executed on the real assembler; every statement is preceded by a label
whose value is exported in a trailer table, every data statement emits unique marker bytes whose
(segment, address) is read back from the code file.
"""
import itertools, struct, re
from .. import core
from ..fmt import pfile

ID = 'C10'
LEVEL = 'model_checking'
VARIANTS = ['plain']
CHUNK = 32
ENGINE = 'history-explorer'
TECHNIQUE = 'explicit-state BFS over statement histories (merged on the model state with two witnesses, plus unmerged enumeration), every transition executed on the real assembler'
LEVEL_TEXT = ('All histories of address statements up to depth 3 (quick) / 4 (thorough) over a 26-op alphabet on a byte-granular (8051) and a '
              'word-granular (PIC16C84) target, and a breadth-first search merged on the reference model state to depth 4 / 5 (themed sub-alphabets to 7) with two witness '
              'histories per state, are executed on the rebuilt assembler; every label value, every emitted byte\'s (segment, address), the final '
              'CPU and the documented errors are compared with the model, and the statement\'s invariants are evaluated on every model state.'
              ' Two further operations define a structure with named / unnamed nested members and instantiate it at the current address.'
              ' Added in the last round: labels on padded words under PHASE (68000); ORG in front of the first CPU/SEGMENT statement with -cpu; segment starts with and without another target selected before (differential).')
LEVEL_NOTE = ('Trusted: Python reference model written from the manual; two implementation-defined choices are assumptions: ORG under PHASE sets the '
              'execution address, and a CPU statement selects the CODE segment. Domain: all counters stay within 0..$FF; histories leaving it are only '
              'checked for crashes.')
RULE = ('histories over the op alphabet; unmerged: every sequence up to the depth; merged: BFS on canonical model state, two witnesses per state, '
        'every op applied to every witness. Non-trivial = history inside the address domain whose labels/markers were compared.')
BOUNDS = {'quick': 'unmerged<=3, merged depth<=4, 2 targets', 'thorough': 'unmerged<=4 (8051) / 3 (PIC), merged depth<=5 (themed alphabets to 7), 2 targets'}
ASSUMPTIONS = ['ORG under a non-zero PHASE sets the execution address (upstream Bld 203 behaviour)',
               'a CPU statement makes CODE the active segment and changes no counter',
               'address domain 0..$FF in every segment']

T8051 = dict(name='8051', cpu='8051', alt='8052', segs={'code': (1, 0, 1), 'data': (2, 0x30, 1), 'xdata': (4, 0, 1)},
             emit=lambda vals: '\tdb ' + ','.join(str(v) for v in vals), res='ds', mom={'8051': 0x8051, '8052': 0x8052},
             tab_org='4096', tab=lambda syms: '\tdw ' + ','.join(syms), tabw=2, fld='db', third='xdata', pcsym='$')
TPIC = dict(name='16c84', cpu='16c84', alt='16c64', segs={'code': (1, 0, 2), 'data': (2, 0, 1)},
            emit=lambda vals: '\tdata ' + ','.join(str(v) for v in vals), res='res', mom={'16c84': 0x16c84, '16c64': 0x16c64},
            tab_org='512', tab=lambda syms: '\tdata ' + ','.join(syms), tabw=2, fld='res', third=None, pcsym='*')
TARGETS = {'8051': T8051, '16c84': TPIC}

OPS = ['ORG10', 'ORG41', 'RORG3', 'RORGm1', 'ALIGN2', 'ALIGN4', 'ALIGN3', 'DS1', 'DS3', 'DB1', 'DB2', 'SEGc', 'SEGd', 'SEGx',
       'PH60', 'PHrel', 'PHld', 'DEPH', 'SAVE', 'REST', 'CPUalt', 'CPUmain', 'STRUCT12', 'UNION12', 'NEST', 'ANON', 'NESTI', 'ANONI']
SEGOF = {'c': 'code', 'd': 'data', 'x': None}
LIM = 0xff


class St(object):
    def __init__(s, T):
        s.T = T
        s.pc = {'code': 0}
        s.ph = {}
        s.phst = {}
        s.seg = 'code'
        s.save = ()
        s.cpu = T['cpu']
        s.err = False   # documented error expected
        s.ood = False   # left the model's domain

    def epc(s):
        return s.pc[s.seg] + s.ph.get(s.seg, 0)

    def canon(s):
        return (tuple(sorted(s.pc.items())), tuple(sorted((k, v) for k, v in s.ph.items() if v)),
                tuple(sorted((k, tuple(v)) for k, v in s.phst.items() if v)), s.seg, s.save, s.cpu, s.err, s.ood)

    def chk(s):
        for k, v in s.pc.items():
            if not (0 <= v <= LIM) or not (0 <= v + s.ph.get(k, 0) <= LIM):
                s.ood = True


def step(s, op, k, markers, syms):
    """apply op number k; markers: list of (segid, byteaddr, value); syms: dict name->value"""
    T = s.T
    seg = s.seg
    gran = T['segs'][seg][2]
    if op.startswith('ORG'):
        v = {'ORG10': 0x10, 'ORG41': 0x41}[op]
        s.pc[seg] = v - s.ph.get(seg, 0)
    elif op == 'RORG3':
        s.pc[seg] += 3
    elif op == 'RORGm1':
        s.pc[seg] -= 1
    elif op.startswith('ALIGN'):
        n = int(op[5:])
        e = s.epc()
        s.pc[seg] += (e + n - 1) // n * n - e
    elif op in ('DS1', 'DS3'):
        s.pc[seg] += int(op[2:])
    elif op in ('DB1', 'DB2'):
        n = int(op[2:])
        for i in range(n):
            val = (0x10 * k + i + 1) & 0xff
            for b in range(gran):
                markers.append((T['segs'][seg][0], (s.pc[seg] + i) * gran + b, val if b == 0 else 0))
        s.pc[seg] += n
    elif op.startswith('SEG'):
        ns = {'c': 'code', 'd': 'data', 'x': T['third']}[op[3]]
        if ns not in s.pc:
            s.pc[ns] = T['segs'][ns][1]
        s.seg = ns
    elif op == 'PH60':
        s.phst.setdefault(seg, []).append(s.ph.get(seg, 0))
        s.ph[seg] = 0x60 - s.pc[seg]
    elif op == 'PHrel':
        s.phst.setdefault(seg, []).append(s.ph.get(seg, 0))
        s.ph[seg] = (s.epc() + 8) - s.pc[seg]
    elif op == 'PHld':
        # PHASE to exactly the current load address: the new offset is 0, but it is still a nesting level
        s.phst.setdefault(seg, []).append(s.ph.get(seg, 0))
        s.ph[seg] = 0
    elif op == 'DEPH':
        st = s.phst.get(seg)
        s.ph[seg] = st.pop() if st else 0
    elif op == 'SAVE':
        s.save = s.save + ((s.cpu, seg),)
    elif op == 'REST':
        if not s.save:
            s.err = True
        else:
            s.cpu, ns = s.save[-1]
            s.save = s.save[:-1]
            if ns not in s.pc:
                s.pc[ns] = T['segs'][ns][1]
            s.seg = ns
    elif op in ('CPUalt', 'CPUmain'):
        s.cpu = T['alt'] if op == 'CPUalt' else T['cpu']
        s.seg = 'code'
    elif op == 'STRUCT12':
        syms['S%d_F1' % k] = 0
        syms['S%d_F2' % k] = 1
        syms['S%d_LEN' % k] = 3
    elif op == 'UNION12':
        syms['S%d_F1' % k] = 0
        syms['S%d_F2' % k] = 0
        syms['S%d_LEN' % k] = 2
    elif op == 'NEST':
        # struct { F1: 1; union U { A: 2; B: 1 }; F2: 1 }
        syms['S%d_F1' % k] = 0
        syms['S%d_U_A' % k] = 1
        syms['S%d_U_B' % k] = 1
        syms['S%d_F2' % k] = 3
        syms['S%d_LEN' % k] = 4
    elif op == 'ANON':
        # struct { F1: 1; <nameless> union { A: 2; <nameless> struct { B: 1; C: 1 } }; F2: 1 }: members join the named parent
        syms['S%d_F1' % k] = 0
        syms['S%d_A' % k] = 1
        syms['S%d_B' % k] = 1
        syms['S%d_C' % k] = 2
        syms['S%d_F2' % k] = 3
        syms['S%d_LEN' % k] = 4
    elif op in ('NESTI', 'ANONI'):
        # the same two structures, defined and then instantiated at the current address: every member of the instance is the
        # instance's address plus the member's offset, and the instance occupies the structure's length
        mem = {'NESTI': {'F1': 0, 'U_A': 1, 'U_B': 1, 'F2': 3}, 'ANONI': {'F1': 0, 'A': 1, 'B': 1, 'C': 2, 'F2': 3}}[op]
        for m, o in mem.items():
            syms['S%d_%s' % (k, m)] = o
        syms['S%d_LEN' % k] = 4
        syms['I%d' % k] = s.epc()
        for m, o in mem.items():
            syms['I%d_%s' % (k, m)] = s.epc() + o
        s.pc[seg] += 4
    else:
        raise ValueError(op)
    s.chk()


def src_of(T, op, k, st=None):
    r = T['res']
    f = T['fld']

    def fld(name, n):
        return '%s\t%s %s' % (name, f, ('%d dup (?)' % n) if f == 'db' else str(n))
    if op.startswith('DB'):
        n = int(op[2:])
        return [T['emit']([(0x10 * k + i + 1) & 0xff for i in range(n)])]
    if op == 'STRUCT12':
        return ['S%d\tstruct' % k, fld('F1', 1), fld('F2', 2), 'S%d\tendstruct' % k]
    if op == 'UNION12':
        return ['S%d\tunion' % k, fld('F1', 1), fld('F2', 2), 'S%d\tendunion' % k]
    if op == 'NEST':
        return ['S%d\tstruct' % k, fld('F1', 1), 'U\tunion', fld('A', 2), fld('B', 1), 'U\tendunion', fld('F2', 1), 'S%d\tendstruct' % k]
    if op == 'ANON':
        return ['S%d\tstruct' % k, fld('F1', 1), '\tunion', fld('A', 2), '\tstruct', fld('B', 1), fld('C', 1), '\tendstruct', '\tendunion',
                fld('F2', 1), 'S%d\tendstruct' % k]
    if op in ('NESTI', 'ANONI'):
        return src_of(T, op[:-1], k, st) + ['I%d\tS%d' % (k, k)]
    if op == 'PHld':
        return ['\tphase %d' % st.pc[st.seg]]
    m = {'ORG10': 'org 16', 'ORG41': 'org 65', 'RORG3': 'rorg 3', 'RORGm1': 'rorg -1', 'ALIGN2': 'align 2', 'ALIGN4': 'align 4',
         'ALIGN3': 'align 3', 'DS1': r + ' 1', 'DS3': r + ' 3', 'SEGc': 'segment code', 'SEGd': 'segment data',
         'SEGx': 'segment %s' % T['third'], 'PH60': 'phase 96', 'PHrel': 'phase %s+8' % T['pcsym'], 'DEPH': 'dephase', 'SAVE': 'save', 'REST': 'restore',
         'CPUalt': 'cpu ' + T['alt'], 'CPUmain': 'cpu ' + T['cpu']}
    return ['\t' + m[op]]


def model(tname, seq):
    T = TARGETS[tname]
    s = St(T)
    labels = []
    markers = []
    syms = {}
    for k, op in enumerate(seq):
        labels.append(s.epc())
        step(s, op, k, markers, syms)
        if s.err:
            break
    labels.append(s.epc())
    return s, labels, markers, syms


def render(tname, seq, syms):
    T = TARGETS[tname]
    out = ['\tcpu ' + T['cpu']]
    st = St(T)
    for k, op in enumerate(seq):
        out.append('L%d:' % k)
        out += src_of(T, op, k, st)
        step(st, op, k, [], {})
    out.append('L%d:' % len(seq))
    out.append('CFIN\tset MOMCPU')
    out.append(T['emit']([0xEE]))      # final probe: which segment is active, and where
    out += ['\tsegment code', '\tdephase', '\tdephase', '\tdephase', '\tdephase', '\tdephase', '\tdephase', '\tdephase', '\torg ' + T['tab_org']]
    names = ['L%d' % k for k in range(len(seq) + 1)] + sorted(syms) + ['CFIN&255']
    for i in range(0, len(names), 8):
        out.append(T['tab'](names[i:i + 8]))
    return '\n'.join(out) + '\n', names


def invariants(tname, seq):
    """the statement's own invariants, evaluated on the model along one history"""
    T = TARGETS[tname]
    s = St(T)
    for k, op in enumerate(seq):
        before = (dict(s.pc), dict(s.ph), s.seg, s.cpu, s.save)
        e0 = s.epc()
        step(s, op, k, [], {})
        if s.err or s.ood:
            return
        for sg, v in before[0].items():
            if sg != before[2]:
                assert s.pc[sg] == v, 'inactive segment counter changed'
        if op.startswith('ALIGN'):
            n = int(op[5:])
            assert s.epc() % n == 0 and 0 <= s.epc() - e0 < n
        if op in ('STRUCT12', 'UNION12', 'NEST', 'ANON'):
            assert (dict(s.pc), dict(s.ph), s.seg) == (before[0], before[1], before[2])


# ---- exploration -----------------------------------------------------------------------------

def ops_of(tname, ops):
    return [o for o in ops if not (o == 'SEGx' and TARGETS[tname]['third'] is None)]


def merged(tname, depth, ops):
    """BFS on the canonical model state; returns list of (history, op) transitions using <=2 witnesses per state"""
    T = TARGETS[tname]
    ops = ops_of(tname, ops)
    wit = {}
    s0, _, _, _ = model(tname, ())
    wit[s0.canon()] = [()]
    frontier = [s0.canon()]
    ntrans = 0
    for d in range(depth):
        nxt = []
        for c in frontier:
            for h in wit[c]:
                for op in ops:
                    yield {'k': 'm', 't': tname, 'hist': list(h), 'op': op}
            h = wit[c][0]
            for op in ops:
                hh = h + (op,)
                s, _, _, _ = model(tname, hh)
                if s.err or s.ood:
                    continue
                cc = s.canon()
                if cc not in wit:
                    wit[cc] = [hh]
                    nxt.append(cc)
                elif len(wit[cc]) < 2 and hh != wit[cc][0]:
                    wit[cc].append(hh)
        frontier = nxt


THEMES = {
    'phase': ['PH60', 'PHrel', 'PHld', 'DEPH', 'ORG10', 'DB1', 'SEGd', 'ALIGN4'],
    'save': ['SAVE', 'REST', 'CPUalt', 'CPUmain', 'SEGd', 'SEGx', 'DB1'],
    'struct': ['STRUCT12', 'UNION12', 'NEST', 'ANON', 'NESTI', 'ANONI', 'PH60', 'SEGd', 'DB1', 'ORG41'],
}


def subspaces(tier):
    subs = []
    n = 3 if tier == 'quick' else 4
    md = 4 if tier == 'quick' else 5
    for tn in ('8051', '16c84'):
        def um(tn=tn, n=(n if tn == '8051' or tier == 'quick' else n - 1)):
            for k in range(1, n + 1):
                for s in itertools.product(ops_of(tn, OPS), repeat=k):
                    yield {'k': 'u', 't': tn, 'hist': list(s[:-1]), 'op': s[-1]}
        subs.append(('unmerged-%s' % tn, um()))
    for tn in ('8051', '16c84'):
        subs.append(('merged-%s-depth%d' % (tn, md), merged(tn, md, OPS)))
    subs.append(('padded-labels-under-phase,org-before-the-first-cpu-statement', list(extra_cases())))
    if tier != 'quick':
        for th, ops in THEMES.items():
            subs.append(('merged-8051-theme-%s-depth7' % th, merged('8051', 7, ops)))
    return subs


def describe(case):
    if case['k'] == 'x':
        return case
    return '%s: %s' % (case['t'], ' / '.join(case['hist'] + [case['op']]))


def extra_cases():
    """(x) 68000 with PADDING ON: a label on (or in front of) a word that gets a pad byte, with and without a PHASE offset - the label
    reads the padded load address plus the offset;  (y) the target given with -cpu only: an ORG in the code segment in front of
    the first SEGMENT or CPU statement holds when the code segment is (re)entered"""
    for ph in (None, 0x8000, 0x20):
        for nb in (1, 2, 3):
            for att in (0, 1):
                for word in ('dc.w $1234', 'dc.l $12345678', 'move.w d0,d1'):
                    yield {'k': 'x', 'sub': 'pad', 'ph': ph, 'nb': nb, 'att': att, 'word': word}
    # (z) where a segment starts is a matter of the selected target alone: the same with and without another target selected before
    for a in ('8051', 'atmega8', '68000', 'z80', '16c84'):
        for b in ('f3850', 'sx20', '16c54', 'msm5054', 'hd614023', 'msm5840', '8051', '16c84', 'atmega8', 'st6210', '8048', 'z8601'):
            for seg in ('code', 'data'):
                yield {'k': 'x', 'sub': 'segstart', 'a': a, 'b': b, 'seg': seg}
    for org in (0x200, 0x41):
        for mid in ('segdata', 'cpu', 'segdata+cpu', 'none'):
            for first in ('org', 'org+res'):
                yield {'k': 'x', 'sub': 'cpuopt', 'org': org, 'mid': mid, 'first': first}


def ev_segstart(case):
    vals = []
    for first in (False, True):
        l = (['\tcpu ' + case['a']] if first else []) + ['\tcpu ' + case['b'], '\tsegment ' + case['seg'], 'lab:']
        core.fresh()
        core.put('a.asm', '\n'.join(l) + '\n')
        o = core.run('asl', ['-q', '-g', 'map', 'a.asm'])
        ck = core.crashkind(o)
        if ck:
            return core.R(False, ck, 'extra/crash/' + ck, '%s on %s' % (ck, ' / '.join(x.strip() for x in l)), transitions=2)
        if o.rc != 0:
            return core.R(True, 'segstart-not-applicable', nontrivial=False, transitions=2)      # (this target has no such segment)
        m = re.search(r'(?mi)^LAB\s+Int\s+([0-9A-F]+)', (core.get('a.map') or b'').decode('latin-1'))
        vals.append(int(m.group(1), 16) if m else None)
    if vals[0] != vals[1]:
        return core.R(False, 'segstart', 'extra/segstart/%s-%s' % (case['b'], case['seg']), 'segment %s of %s starts at %s, but at %s when `cpu %s` stood in front' % (case['seg'], case['b'], vals[0], vals[1], case['a']), transitions=2)
    return core.R(True, 'extra-ok', states=['x:segstart:%s:%s' % (case['b'], vals[0])], transitions=2)


def ev_extra(case):
    if case['sub'] == 'segstart':
        return ev_segstart(case)
    core.fresh()
    if case['sub'] == 'pad':
        load = 0x1000
        l = ['\tcpu 68000', '\tpadding on', '\torg $1000']
        off = 0
        if case['ph'] is not None:
            l.append('\tphase $%x' % case['ph'])
            off = case['ph'] - load
        l.append('\tdc.b ' + ','.join(['1'] * case['nb']))
        pc = load + case['nb']
        pad = pc & 1
        if case['att']:
            l.append('lab:\t' + case['word'])
        else:
            l += ['lab:', '\t' + case['word']]
        want = pc + pad + off
        l += ['\tdc.l lab']
        opts = []
    else:
        l = ['\torg %d' % case['org']]
        if case['first'] == 'org+res':
            l = ['\torg %d' % (case['org'] - 2), '\tds 2']
        if 'segdata' in case['mid']:
            l += ['\tsegment data', '\torg 30h', '\tds 2']
        if 'cpu' in case['mid']:
            l += ['\tcpu 8051']
        if case['mid'] != 'none':
            l += ['\tsegment code']
        l += ['lab:\tdb 1', '\tdb 0,0,0', '\tdw lab']
        want = case['org']
        opts = ['-cpu', '8051']
    core.put('a.asm', '\n'.join(l) + '\n')
    o = core.run('asl', ['-q'] + opts + ['a.asm'])
    d = ' / '.join(x.strip() for x in l) + (' | asl ' + ' '.join(opts) if opts else '')
    ck = core.crashkind(o)
    if ck:
        return core.R(False, ck, 'extra/crash/' + ck, '%s on %s' % (ck, d))
    p = core.get('a.p')
    if o.rc != 0 or p is None:
        return core.R(False, 'rejected', 'extra/rejected/' + case['sub'], 'rc=%s %s on %s' % (o.rc, (o.out + o.err)[-160:].decode('latin-1'), d))
    recs = pfile.data_records(pfile.read(p))
    data = b''.join(r.data for r in recs)
    got = int.from_bytes(data[-4:], 'big') if case['sub'] == 'pad' else int.from_bytes(data[-2:], 'little')
    if got != want:
        return core.R(False, 'label', 'extra/%s/label-value' % case['sub'], 'label reads %x, model %x on %s' % (got, want, d))
    if case['sub'] == 'cpuopt' and recs[0].start != (want if case['first'] == 'org' else want):
        return core.R(False, 'label', 'extra/cpuopt/load-address', 'first code record at %x, model %x on %s' % (recs[0].start, want, d))
    return core.R(True, 'extra-ok', states=['x:%s:%x' % (case['sub'], want)])


def evaluate(case):
    if case['k'] == 'x':
        return ev_extra(case)
    tname = case['t']
    T = TARGETS[tname]
    seq = case['hist'] + [case['op']]
    invariants(tname, seq)
    s, labels, markers, syms = model(tname, seq)
    if s.err:
        seq = seq[:len(labels) - 1]
    text, names = render(tname, seq, syms)
    core.fresh()
    core.put('a.asm', text)
    o = core.run('asl', ['-q', 'a.asm'])
    ck = core.crashkind(o)
    desc = describe(case)
    if ck:
        return core.R(False, ck, 'crash/' + ck + '/' + case['op'], '%s on %s' % (ck, desc))
    if s.ood:
        return core.R(True, 'out-of-domain', nontrivial=False)
    p = core.get('a.p')
    msg = (o.out + o.err).decode('latin-1')
    if s.err or s.save:
        if o.rc == 2 and p is None:
            return core.R(True, 'documented-error', states=[repr(s.canon())])
        return core.R(False, 'error-missing', 'error-missing/' + ('restore-empty' if s.err else 'save-open'), 'model expects an error, rc=%s on %s' % (o.rc, desc))
    if o.rc != 0 or p is None:
        return core.R(False, 'rejected', 'rejected/' + case['op'], 'rc=%s %s on %s' % (o.rc, msg[-160:], desc))
    recs = pfile.data_records(pfile.read(p))
    got = {}
    tab = b''
    taborg = int(T['tab_org'])
    for r in recs:
        if r.seg == 1 and r.start >= taborg:
            tab += r.data
            continue
        for i, b in enumerate(r.data):
            got[(r.seg, r.start * r.gran + i)] = b
    gran_fin = T['segs'][s.seg][2]
    want = {(sg, a): b for sg, a, b in markers}
    for b in range(gran_fin):
        want[(T['segs'][s.seg][0], s.pc[s.seg] * gran_fin + b)] = 0xEE if b == 0 else 0
    if got != want:
        return core.R(False, 'markers', 'markers/' + case['op'], 'code bytes at %s, model %s on %s' % (sorted(got.items()), sorted(want.items()), desc))
    vals = list(struct.unpack('<%dH' % (len(tab) // 2), tab))
    wantv = [l & 0xffff for l in labels] + [syms[k] for k in sorted(syms)] + [T['mom'][s.cpu] & 0xff]
    if vals != wantv:
        bad = [names[i] for i in range(min(len(vals), len(wantv))) if vals[i] != wantv[i]]
        return core.R(False, 'labels', 'labels/' + case['op'], 'symbol values %s model %s (differs at %s) on %s' % (['%x' % v for v in vals], ['%x' % v for v in wantv], bad, desc))
    # per-segment state must start every pass afresh: with a PHASE in the history (possibly left open at the end of the source)
    # one forced further pass has to reproduce the code file
    if any(x.startswith('PH') for x in seq):
        o2 = core.run('asl', ['-q', 'a.asm'], env={'ASL_VERIF_EXTRA_PASSES': '1'})
        p2 = core.get('a.p')
        if o2.rc != 0 or p2 != p:
            return core.R(False, 'extra-pass', 'extra-pass/' + case['op'], 'a forced further pass changes the result (rc %s, code file %s) on %s' % (o2.rc, 'differs' if p2 != p else 'same', desc), transitions=2)
    return core.R(True, 'match', states=[repr(s.canon())])
