import os, subprocess, sys, tempfile, shutil, collections, re
from multiprocessing import Pool
ASL='/tmp/bt/asl'; T='/repo/tests'
tests=sorted(t for t in os.listdir(T) if os.path.exists(os.path.join(T,t,t+'.asm')))
def flags(t):
    p=os.path.join(T,t,'asflags'); return open(p).readline().split() if os.path.exists(p) else []
MUTS=['','-1','99999999999','x,x,x,x','"s"','(','#']
base=tempfile.mkdtemp(dir='/dev/shm')
LINE=re.compile(rb'^(\S*)(\s+)([^\s;]+)(\s+)([^;]*?)(\s*(;.*)?)$')
def jobs_for(t):
    src=open(os.path.join(T,t,t+'.asm'),'rb').read().split(b'\n')
    seen=set(); out=[]
    for i,l in enumerate(src):
        m=LINE.match(l)
        if not m: continue
        op=m.group(3).upper()
        if op in seen or not m.group(5).strip(): continue
        if op in (b'MACRO',b'ENDM',b'IF',b'ENDIF',b'ELSE',b'ELSEIF',b'INCLUDE',b'CPU',b'REPT',b'IRP',b'WHILE',b'SECTION',b'STRUCT'): continue
        seen.add(op)
        for k,mu in enumerate(MUTS): out.append((t,i,k))
    return out
def run(job):
    t,i,k=job
    d=tempfile.mkdtemp(dir=base)
    for f in os.listdir(os.path.join(T,t)):
        if not f.endswith('.ori') and f!='asflags' and not f.endswith('.doc'): shutil.copy(os.path.join(T,t,f),d)
    src=open(os.path.join(T,t,t+'.asm'),'rb').read().split(b'\n')
    m=LINE.match(src[i]); src[i]=m.group(1)+m.group(2)+m.group(3)+m.group(4)+MUTS[k].encode()
    open(d+'/'+t+'.asm','wb').write(b'\n'.join(src))
    try:
        r=subprocess.run([ASL]+flags(t)+['-q','-i','/repo/include',t+'.asm'],cwd=d,stdout=subprocess.DEVNULL,stderr=subprocess.PIPE,stdin=subprocess.DEVNULL,env={'LC_ALL':'C','ASAN_OPTIONS':'detect_leaks=0:exitcode=99'},timeout=30)
        rc=r.returncode; e=r.stderr[-3000:] if rc==99 else b''
    except subprocess.TimeoutExpired: rc='HANG'; e=b''
    shutil.rmtree(d,ignore_errors=True)
    if rc=='HANG': return job,'HANG'
    if rc<0: return job,'SIGNAL %d'%rc
    if rc==99:
        mm=re.search(rb'ERROR: AddressSanitizer: (\S+)',r.stderr); f=re.search(rb'#\d+ \S+ in (\S+) /repo/(\S+)',r.stderr)
        return job,'ASAN %s %s'%(mm.group(1).decode() if mm else '?', (f.group(1)+b'@'+f.group(2)).decode() if f else '?')
    return job,'rc%d'%rc
if __name__=='__main__':
    skip={'t_m16','t_msp430x','t_buf32','t_bas52','t_m16c'}
    jobs=[j for t in tests if t not in skip for j in jobs_for(t)]
    print(len(jobs),'jobs')
    with Pool(16) as p: rs=p.map(run,jobs,chunksize=10)
    c=collections.Counter(r for _,r in rs)
    for k,v in c.most_common(): print(v,k)
    sh=collections.Counter()
    for j,r in rs:
        if not r.startswith('rc') and sh[r]<2:
            sh[r]+=1
            src=open(os.path.join(T,j[0],j[0]+'.asm'),'rb').read().split(b'\n')
            print(j,r,'| line:',src[j[1]][:50],'-> mut',repr(MUTS[j[2]]))
    shutil.rmtree(base)
