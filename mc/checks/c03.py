"""C03 - no input makes the assembler or a utility crash or hang (fault enumeration).

Every element of several stated finite fault spaces is executed: raw source bytes, one-statement programs over the
pseudo-instruction lists of the manual with boundary argument tuples, per-mnemonic operand faults over the golden
corpus, nesting/recursion bounds, and every prefix and every single-byte substitution of valid code / hex files fed
to every utility.  Oracle: normal exit with a documented status, no signal, no AddressSanitizer report, within the
time limit; malformed code files must be rejected with the format-error status.
"""
import itertools, os, re
from .. import core, corpus
from ..fmt import pfile

ID = 'C03'
LEVEL = 'fault_enumeration'
VARIANTS = ['plain', 'asan']
CHUNK = 16
FSIZE_CAP = 2 << 20     # runaway outputs are cut early: work proportional to the described image is not a violation
ENGINE = 'fault-enumerator'
TECHNIQUE = 'exhaustive fault enumeration (all short byte strings, all argument tuples over a boundary alphabet, all prefixes and byte substitutions of seed files) on plain and AddressSanitizer builds'
LEVEL_TEXT = ('All source byte strings up to length 2 (thorough: all 65 793; quick: a 64-character alphabet), every always-available and family '
              'pseudo instruction with every argument tuple of arity <= 2 over a 12-token boundary alphabet (with/without label and closing '
              'statement), operand faults for the first occurrence of every mnemonic of the golden corpus (thorough), nesting depth limits, and '
              'every prefix plus six byte substitutions at every offset of 7 seed code files and 3 hex/binary images through plist, pbind, p2bin, '
              'p2hex, alink and dasl are executed; crashes are re-run under AddressSanitizer to obtain a call-site signature.'
              ' Further: all sequences <= 3 (4) of preprocessor directives and of structure-body lines with element references on three targets, every built-in function with 0..5 arguments, self- and mutually-referencing FUNCTIONs, formula nesting to 100 000 levels, and field edits (boundary values for each count and name position) of relocation-info records. Output that hits the size cap although the input names no large count is a runaway, not proportional work.'
              ' Lines that grow while processed (#define expansions, TABs in stored body lines, listing wrap of long lines), entry vectors of dasl at and across the image end, and the option arguments of the code-file tools at their limits (-f lists up to 300 entries, -r/-l/-e/-R values) are enumerated as well.'
              ' Added in the last round: data statements with hundreds of arguments on every target under AddressSanitizer. Relocation entries that resolve are enumerated over patch address x width around the record they belong to (alink).')
LEVEL_NOTE = ('Trusted: exit status / signal / ASan report as observed; independent pfile reader to classify malformed code files. Termination is '
              'only claimed for inputs without WHILE and self-recursive macros. UBSan is not used (benign noise on the unchanged tree).')
RULE = 'each enumerated input once; non-trivial = input is rejected or exercises an error path (status != 0) or reaches a tool with a mutated file'
BOUNDS = {'quick': 'bytes<=2 over 64 chars; arity<=2 on 68000 (plain) + arity<=1 asan; all file faults', 'thorough': 'all bytes<=2; arity<=2 on 3 CPUs asan; corpus operand faults'}
ASSUMPTIONS = ['documented exit statuses: asl {0,1,2,3,4}, utilities {0,1,2,3}']

TOK = ['', '0', '1', '-1', '65536', '2147483648', '1.5', '"s"', "''", 'x', '$', '?']
CLOSE = {'MACRO': 'endm', 'IRP': 'endm', 'IRPC': 'endm', 'IRPN': 'endm', 'REPT': 'endm', 'WHILE': 'endm', 'IF': 'endif', 'IFDEF': 'endif', 'IFNDEF': 'endif',
         'IFB': 'endif', 'IFNB': 'endif', 'IFUSED': 'endif', 'IFNUSED': 'endif', 'IFEXIST': 'endif', 'IFNEXIST': 'endif', 'SWITCH': 'endcase',
         'SECTION': 'endsection', 'STRUCT': 'endstruct', 'STRUC': 'endstruct', 'UNION': 'endunion', 'SAVE': 'restore', 'PHASE': 'dephase'}
ASL_OK = {0, 1, 2, 3, 4}
TOOL_OK = {0, 1, 2, 3}


def doc_ops():
    doc = open(os.path.join(corpus.build.REPO, 'doc', 'pseudo-instructions-and-integer-syntax.md')).read()
    m = re.search(r'#### Instructions that are always available\s*\n\s*\n> (.*?)\n\n', doc, re.S)
    ops = re.findall(r'`([^`]+)`', m.group(1)) + ['SET', 'EVAL', 'SHIFT', 'SHFT', 'IRPC', 'IRPN', 'WHILE', 'UNION', 'ENDUNION', 'ELSEIF', 'BINCLUDE', 'TITLE', 'OUTRADIX', 'RADIX',
                                                   'CODEPAGE', 'ASSUME', 'EXPECT', 'ENDEXPECT', 'COMPMODE', 'PADDING', 'NESTMAX']
    fam = {}
    for mm in re.finditer(r'#### ([^\n]+)\n\n_Default Integer Syntax[^\n]*\n\n> ([^\n]+)', doc):
        fam[mm.group(1)] = [re.sub(r'\[.*?\]', '', x) for x in re.findall(r'`([^`]+)`', mm.group(2))]
    seen = []
    for o in ops:
        if o not in seen and o not in ('READ',):
            seen.append(o)
    return seen, fam


# ---- seeds for the utilities ----------------------------------------------------------------------

def seeds():
    R = lambda cpu, seg, gran, st, data, short=False: dict(kind='data', cpu=cpu, seg=seg, gran=gran, start=st, data=data, short=short)
    E = lambda v: dict(kind='entry', entry=v)
    s = {
        'short': pfile.write([R(0x41, 1, 1, 0x100, bytes(range(1, 9)), True)]),
        'long': pfile.write([R(0x41, 1, 1, 0x100, bytes(range(1, 9)))]),
        'twoseg': pfile.write([R(0x31, 1, 1, 0, b'\x02\x00\x10'), R(0x31, 2, 1, 0x30, b'\x01\x02')]),
        'entry': pfile.write([R(0x61, 1, 1, 0x100, b'\x20\xfe\x01'), E(0x100)]),
        'zero': pfile.write([R(0x41, 1, 1, 0x50, b''), R(0x41, 1, 1, 0x60, b'\x07')]),
        'word': pfile.write([R(0x70, 1, 2, 0x10, b'\xff\x3f\x00\x00'), R(0x76, 1, 4, 0, b'\x01\x02\x03\x04')]),
        'm6800': pfile.write([R(0x61, 1, 1, 0x100, bytes.fromhex('8601b70010 20fe bd0110 39 7e0100')), E(0x100)]),
    }
    s['reloc'] = reloc_file()
    s['rdata'] = reloc_file(rdata=True)
    return s


def reloc_file(counts=(1, 1, 6), pos=(0, 3), strings=b'ab\0cd\0', rdata=False, addr=0x100, rtype=0x10, hdr=None):
    """a code file with a relocation-info record ($85: three 32-bit counts, reloc entries, export entries, name strings) in front of
    / attached to a data record; counts and string positions are given separately so that they can disagree with the contents"""
    import struct
    body = struct.pack('<III', *[c & 0xffffffff for c in counts])
    body += struct.pack('<QII', addr & 0xffffffffffffffff, pos[0] & 0xffffffff, rtype & 0xffffffff)          # one relocation entry: address, name position, type
    body += struct.pack('<IIQ', pos[1] & 0xffffffff, 0, 0x1234)            # one export entry: name position, flags, value
    body += strings
    data = bytes([hdr or (0x82 if rdata else 0x81), 0x41, 1, 1]) + struct.pack('<IH', 0x100, 4) + b'\x01\x02\x03\x04'
    return b'\x89\x14' + (data + b'\x85' + body if rdata else b'\x85' + body + data) + b'\x00verif'


TOOLS = {
    'plist': lambda: ['plist', ['x.p']],
    'pbind': lambda: ['pbind', ['x.p', 'o.p']],
    'p2bin': lambda: ['p2bin', ['x.p', 'o.bin']],
    'p2hex': lambda: ['p2hex', ['x.p', 'o.hex']],
    'p2hexi': lambda: ['p2hex', ['x.p', 'o.hex', '-F', 'Intel32']],
    'p2binm': lambda: ['p2bin', ['x.p', 'o.bin', '-m', 'ODD', '-S', '2']],
    'alink': lambda: ['alink', ['x.p', 'o.p']],
}


def subspaces(tier):
    q = tier == 'quick'
    subs = []
    # 1. raw source bytes
    alpha = list(range(256)) if not q else sorted(set(b'\t\n\r "\'(),:;.$%&*+-/<=>?@[\\]^_`{|}~!#09AZaz\x00\x80\xff' + b'xX1e'))
    subs.append(('1:raw-bytes<=2(alphabet %d)' % len(alpha), ({'k': 'raw', 'b': list(s), 'mode': m} for n in (0, 1, 2) for s in itertools.product(alpha, repeat=n) for m in ('file', 'db'))))
    if not q:
        a3 = sorted(set(b'\t a1,"\'(){}\\:;[]$.-+*/<>=!~?@#%&'))
        subs.append(('1:raw-bytes=3(alphabet %d)' % len(a3), ({'k': 'raw', 'b': list(s), 'mode': 'file'} for s in itertools.product(a3, repeat=3))))
    # 2. one-statement programs
    ops, fam = doc_ops()

    def stmts(cpus, maxar, variant, oplist):
        for cpu in cpus:
            for op in oplist:
                for ar in range(0, maxar + 1):
                    for args in itertools.product(TOK, repeat=ar):
                        for lab in (0, 1):
                            for close in ((0, 1) if op in CLOSE else (0,)):
                                yield {'k': 'stmt', 'cpu': cpu, 'op': op, 'args': list(args), 'lab': lab, 'close': close, 'v': variant}
    if q:
        subs.append(('2:pseudo-ops arity<=2 (68000, plain)', stmts(['68000'], 2, 'plain', ops)))
        subs.append(('2:pseudo-ops arity<=1 (68000+8051, asan)', stmts(['68000', '8051'], 1, 'asan', ops)))
    else:
        subs.append(('2:pseudo-ops arity<=2 (68000,8051,32010; asan)', stmts(['68000', '8051', '32010'], 2, 'asan', ops)))
        subs.append(('2:pseudo-ops arity=3 (68000, plain)', ({'k': 'stmt', 'cpu': '68000', 'op': op, 'args': list(a), 'lab': 0, 'close': 1, 'v': 'plain'}
                                                             for op in ops for a in itertools.product(TOK, repeat=3))))
    famcpu = {'Motorola 680x0/MCF5xxx': '68000', 'Intel 8086/80186/NEC V30/35': '8086', 'Zilog Z80/Z180/Z380': 'z80', 'Intel MCS-51/MCS-251': '8051',
              'Texas Instruments MSP430': 'msp430', 'Atmel AVR': 'at90s8515', 'Microchip PIC16C8x': '16c84', 'Motorola 68xx/Hitachi 63xx': '6811',
              'MOS 65xx/MELPS-740': '6502', 'Texas Instruments TMS320C3x/C4x': '320c30', 'Intel 4004/4040': '4004', 'Motorola 56xxx': '56000'}

    def famstmts():
        for name, cpu in famcpu.items():
            key = [k for k in fam if k.startswith(name[:14])]
            if not key:
                continue
            for x in stmts([cpu], 2 if not q else 1, 'asan' if not q else 'plain', fam[key[0]]):
                yield x
    subs.append(('2:family-pseudo-ops', famstmts()))
    # 2b. data-definition statements of every syntax family on one CPU of EVERY code generator (the CPU statements of the golden
    # sources): the statement may be unknown or rejected there, but it must not crash
    subs.append(('2:data-statements-on-every-target', data_on_all_targets()))
    # 3. operand faults over the corpus (thorough)
    if not q:
        subs.append(('3:corpus-operand-faults', corpus_faults()))
    # 4. nesting
    subs.append(('4:nesting', list(nest_cases())))
    # 4b. statement sequences whose items refer to each other: preprocessor definitions, structure bodies with element references
    subs.append(('4:preprocessor-and-structure-sequences', seq_cases(3 if q else 4)))
    # 5. utilities
    S = seeds()

    def filefaults():
        for sname, seed in S.items():
            for tool in TOOLS:
                for n in range(len(seed) + 1):
                    yield {'k': 'file', 'tool': tool, 'seed': sname, 'mut': ['trunc', n]}
                for off in range(max(0, len(seed) - 6)):
                    for v in (0, 1, 0x7f, 0x80, 0x81, 0x85, 0xff):
                        if seed[off] != v:
                            yield {'k': 'file', 'tool': tool, 'seed': sname, 'mut': ['sub', off, v]}
        # field edits of the relocation-info record: each count and each name position over the 32-bit boundary values
        edge = [0, 1, 2, 5, 6, 7, 0x03ffffff, 0x04000000, 0x0fffffff, 0x10000000, 0x3fffffff, 0x40000000, 0x7fffffff, 0x80000000, 0xfffffff0, 0xffffffff]
        for tool in TOOLS:
            for rdata in (0, 1):
                for i in range(3):
                    for v in edge:
                        c = [1, 1, 6]
                        c[i] = v
                        yield {'k': 'file', 'tool': tool, 'seed': 'reloc', 'mut': ['reloc', c, [0, 3], rdata]}
                for i in range(2):
                    for v in edge:
                        ps = [0, 3]
                        ps[i] = v
                        yield {'k': 'file', 'tool': tool, 'seed': 'reloc', 'mut': ['reloc', [1, 1, 6], ps, rdata]}
                yield {'k': 'file', 'tool': tool, 'seed': 'reloc', 'mut': ['reloc-unterminated', [1, 1, 5], [0, 3], rdata]}
            # the patch address and type of a relocation entry whose name resolves: every address around the 4-byte record x every width
            for hdr in (0x82, 0x84):
                for addr in (0, 0xff, 0x100, 0x101, 0x102, 0x103, 0x104, 0x1ff, 0x10000, 0xffffffff, 1 << 32, 1 << 63, (1 << 64) - 1):
                    for rtype in (0x8008, 0x8010, 0x108010, 0x8020, 0x108020, 0x8040, 0x108040, 0x208010, 0x8018, 0x10):
                        yield {'k': 'file', 'tool': tool, 'seed': 'reloc', 'mut': ['reloc-addr', hdr, addr, rtype]}
    subs.append(('5:code-file-prefixes-and-substitutions', filefaults()))
    subs.append(('5:tool-option-arguments', toolopt_cases()))
    subs.append(('5:dasl-images', dasl_cases(q)))
    return subs


def all_cpus():
    seen = []
    for t in corpus.tests():
        try:
            txt = open(os.path.join(corpus.tdir(), t, t + '.asm'), 'rb').read().decode('latin-1')
        except OSError:
            continue
        for m in re.finditer(r'^\s+cpu\s+([A-Za-z0-9_/.:=+-]+)', txt, re.M | re.I):
            c = m.group(1).lower()
            if c not in seen:
                seen.append(c)
    return seen


def data_on_all_targets():
    ops = ['db', 'dw', 'dd', 'dq', 'dt', 'dn', 'ds', 'dc.b', 'dc.w', 'dc.l', 'ds.b', 'byt', 'fcb', 'fcc', 'adr', 'fdb', 'rmb', 'data', 'byte', 'word', 'long', 'float', 'zero', 'res', 'bss', 'dfs', 'defb', 'defw', 'align']
    args = ['1,2,3', '?', '"ab"', '1.5', '2 dup (7)', '']
    for cpu in all_cpus():
        for op in ops:
            for a in args:
                yield {'k': 'stmt', 'cpu': cpu, 'op': op, 'args': [a] if a else [], 'lab': 1, 'close': 0, 'v': 'plain'}
            # many arguments in one statement (the code buffer of a line starts out with 256 bytes), under AddressSanitizer
            for a in (','.join(['1'] * 300), ','.join(['"abcdefgh"'] * 80), ','.join(['1.5'] * 150)):
                yield {'k': 'stmt', 'cpu': cpu, 'op': op, 'args': [a], 'lab': 0, 'close': 0, 'v': 'asan'}


def corpus_faults():
    REPL = ['', '-1', '65536', '"s"', 'x', '(', '1.5', '$ffffffff']
    for t in corpus.tests():
        try:
            lines = open(os.path.join(corpus.tdir(), t, t + '.asm'), 'rb').read().decode('latin-1').split('\n')
        except OSError:
            continue
        seen = set()
        for i, l in enumerate(lines):
            m = re.match(r'^(\S*)\s+([A-Za-z][\w.]*)\s+([^;]+?)\s*(;.*)?$', l)
            if not m or l.startswith(';'):
                continue
            mn = m.group(2).lower()
            if mn in ('while', 'rept', 'irp', 'irpc', 'irpn', 'macro', 'if', 'include', 'binclude', 'end', 'set', 'equ', 'eval'):
                continue     # constructs whose operand controls repetition / file access: excluded from operand mutation
            if mn in seen or len(seen) > 400:
                continue
            seen.add(mn)
            ops = m.group(3).split(',')
            for k in range(len(ops)):
                for r in REPL:
                    yield {'k': 'corpus', 't': t, 'line': i, 'new': '%s\t%s\t%s' % (m.group(1), m.group(2), ','.join(ops[:k] + [r] + ops[k + 1:]))}
            yield {'k': 'corpus', 't': t, 'line': i, 'new': '%s\t%s\t%s' % (m.group(1), m.group(2), ','.join(ops + ops))}
            yield {'k': 'corpus', 't': t, 'line': i, 'new': '%s\t%s' % (m.group(1), m.group(2))}


PP = ['#define A 1', '#define B A', '#define A', '#undef A', '#undef B', '#undef C', '#undef', '#ifdef A', '#ifndef C', '#endif', '\tdb A', '\tdb B+1']
STRUCT_T = {'h8/300': ['byte1\tds.b 1', 'byte2\tds.b 1', 'rdy\tbit 0,byte1', 'err\tbit 1,byte3', 'fwd\tbit 2,byte2', 'bad\tbit 9,byte1', 'self\tbit 0,self'],
            'z8601': ['byte1\tdb ?', 'byte2\tdb ?', 'rdy\tdefbit byte1,0', 'err\tdefbit byte3,1', 'fwd\tdefbit byte2,2', 'self\tdefbit self,0'],
            'st7': ['byte1\tds.b 1', 'byte2\tds.b 1', 'rdy\tbit byte1,0', 'err\tbit byte3,1', 'fwd\tbit byte2,2']}


PV = ['\tpushv alpha,x', '\tpushv beta,x', '\tpopv alpha,x', '\tpopv beta,x', '\tpushv ,x', '\tpopv ,x', '\tpushv gamma,x,x', '\tpopv gamma,x']
BINC = ['\tbinclude "s.bin"%s' % a for a in ('', ',0', ',4', ',8', ',9', ',0,0', ',0,8', ',0,9', ',4,4', ',4,5', ',4,100', ',8,1', ',9,1', ',4,-1', ',-1,2', ',4,65536')]


def seq_cases(n):
    for k in range(1, n + 1):
        for seq in itertools.product(range(len(PP)), repeat=k):
            yield {'k': 'seq', 'fam': 'pp', 'seq': list(seq)}
    # symbol stacks: several named stacks created and emptied in every order
    for k in range(1, n + 2):
        for seq in itertools.product(range(len(PV)), repeat=k):
            yield {'k': 'seq', 'fam': 'pushv', 'seq': list(seq)}
    # BINCLUDE windows at, across and behind the end of an 8-byte file
    for i in range(len(BINC)):
        yield {'k': 'seq', 'fam': 'binclude', 'seq': [i]}
    for cpu, items in STRUCT_T.items():
        for k in range(1, n + 1):
            for seq in itertools.product(range(len(items)), repeat=k):
                if len(set(seq)) == len(seq):
                    yield {'k': 'seq', 'fam': 'struct', 'cpu': cpu, 'seq': list(seq)}
    # relocatable segments: expressions over external symbols and relocatable labels, every sum/difference of up to four terms
    terms = ['ext1', 'ext2', 'lab1', 'lab2', '5']
    for n in range(1, 5):
        for combo in itertools.product(terms, repeat=n):
            for sign in ('+', '-') if n > 1 else ('+',):
                yield {'k': 'seq', 'fam': 'rseg', 'seq': [sign.join(combo)]}
    # lines that grow while they are processed: #define expansions (length of the definition x number of uses, definitions
    # that use definitions) and TABs in stored body lines, which are expanded to blanks
    for dl in (1, 10, 100, 250):
        for uses in (1, 10, 50, 120):
            yield {'k': 'seq', 'fam': 'grow', 'seq': ['def', dl, uses]}
    for depth in (1, 2, 4, 6, 8, 10):
        yield {'k': 'seq', 'fam': 'grow', 'seq': ['defdef', depth, 0]}
    # long source lines wrapped by the listing at the PAGE width
    for width in (0, 5, 80, 255):
        for n in (50, 300, 2400, 2600, 20000):
            for ch in ('x', '\t'):
                yield {'k': 'seq', 'fam': 'grow', 'seq': ['listwrap', width, n, ch], 'opt': ['-L']}
    for body in ('macro', 'rept', 'irp', 'irpc', 'while'):
        for tabs in (1, 8, 40, 130, 300, 1000):
            for where in ('tail', 'mid'):
                yield {'k': 'seq', 'fam': 'grow', 'seq': ['tabs', body, tabs, where]}


def builtin_functions():
    src = open(os.path.join(corpus.build.REPO, 'function.c')).read()
    return sorted(set(re.findall(r'^\s*\{\s*"([A-Z0-9_]+)",\s*\d', src, re.M))) + ['SYMTYPE', 'DEFINED', 'ASSUMEDVAL', 'nosuchfunction']


def nest_cases():
    for kind in ('rept', 'irp', 'irpc', 'irpn', 'macro', 'struct', 'section', 'if', 'include', 'paren', 'save', 'phase', 'pushv'):
        for depth in (1, 2, 17, 100, 300):
            yield {'k': 'nest', 'kind': kind, 'depth': depth}
    for depth in (1000, 5000, 100000):
        yield {'k': 'nest', 'kind': 'paren', 'depth': depth}
    # user-defined functions referring to themselves / to each other, and every built-in function with 0..5 arguments
    for body in ('f(x)', 'f(x)+1', '1+f(x-1)', 'g(x)', 'f(f(x))', 'x*f(x)'):
        yield {'k': 'nest', 'kind': 'funcrec', 'depth': 0, 'body': body}
    for fn in builtin_functions():
        for ar in range(0, 6):
            for a in ('1', '"s"', '1.5'):
                yield {'k': 'nest', 'kind': 'funcargs', 'depth': ar, 'fn': fn, 'arg': a}
    for cnt in ('-1', '0', '1', '2147483648', '1.5', '"s"'):
        for kw in ('rept', 'irpn', 'while'):
            yield {'k': 'count', 'kw': kw, 'cnt': cnt}
    for body in (['exitm'], ['shift'], ['endm'], ['save'], ['restore'], ['endstruct'], ['endsection'], ['struct'], ['x struct', 'save', 'x endstruct', 'restore'],
                 ['m macro', 'endif', 'exitm', 'endm', 'if 1', 'm', 'endif'], ['m macro', 'if 1', 'exitm', 'endm', 'm', 'endif'], ['page 60,1'], ['page 1,1'], ['page 0,0']):
        for ctx in ('', 'irp x,1,2', 'rept 2', 'm macro', 'if 1', 'x struct', 'section s'):
            for opt in ([], ['-L']):
                yield {'k': 'ctx', 'ctx': ctx, 'body': body, 'opt': opt}


def toolopt_cases():
    """argument values of the code-file tools' options at and beyond their natural limits, on a valid code file"""
    lists = [','.join(str(i) for i in range(n)) for n in (1, 2, 99, 100, 101, 200, 256)] + [','.join(['65'] * 300), ',', '1,', ',1', '256', '-1', '0x41,0x41', 'x']
    for tool in ('p2bin', 'p2hex', 'pbind'):
        for l in lists:
            yield {'k': 'toolopt', 'tool': tool, 'opt': ['-f', l]}
            yield {'k': 'toolopt', 'tool': tool, 'opt': ['-f', l, '+f', l]}
    # more parameters than the tools keep books for
    for tool in ('p2bin', 'p2hex', 'pbind', 'plist'):
        for n in (200, 252, 253, 254, 255, 256, 300, 2000):
            yield {'k': 'toolopt', 'tool': tool, 'opt': ['-q'] * n}
    nums = ['0', '1', '2', '3', '15', '16', '17', '254', '255', '256', '257', '65535', '65536', '0x7fffffff', '0xffffffff', '0x100000000', '-1', '', 'x', '1x', '$10', '0x']
    for v in nums:
        for o in ('-l', '-e', '-R', '-i', '-M', '-avrlen', '-m', '-d'):
            yield {'k': 'toolopt', 'tool': 'p2hex', 'opt': [o, v]}
        for o in ('-l', '-e', '-S', '-m'):
            yield {'k': 'toolopt', 'tool': 'p2bin', 'opt': [o, v]}
    rngs = ['0-0', '0-1', '1-0', '0x-0x', '0x-', '-0x', '0-0xffffffff', '0xffffffff-0', '0xfffffff0-0xffffffff', '$100-$1ff', '-', '', '5', '0-0-0', '0x100-0x', '0x-0x100',
            '0x100000000-0x100000010']
    for r in rngs:
        for tool in ('p2bin', 'p2hex'):
            yield {'k': 'toolopt', 'tool': tool, 'opt': ['-r', r]}
            yield {'k': 'toolopt', 'tool': tool, 'opt': ['-r', r, '-s'] if tool == 'p2bin' else ['-r', r, '-F', 'Moto']}
    for f in ('Moto', 'Intel', 'Intel16', 'Intel32', 'MOS', 'Tek', 'DSK', 'Atmel', 'Mico8', 'C', 'default', '', 'x', 'moto', 'INTEL'):
        yield {'k': 'toolopt', 'tool': 'p2hex', 'opt': ['-F', f]}
        yield {'k': 'toolopt', 'tool': 'p2hex', 'opt': ['-F', f, '-l', '255']}


def dasl_cases(q):
    cpus = ['6800', '87C00', '4004']
    b1 = [0x00, 0x01, 0x7f, 0x80, 0xfe, 0xff]
    for cpu in cpus:
        for b0 in range(256):
            for x in (b1 if not q else (0x00, 0xfe, 0xff)):
                yield {'k': 'dasl', 'cpu': cpu, 'img': [b0, x, 0x00]}
        for n in range(0, 3):
            yield {'k': 'dasl', 'cpu': cpu, 'img': [0x20] * n}
        # entry addresses read from a vector in the image: at the start, the end and across the end, every length and order
        for va in (256, 258, 259, 260, 100):
            for ln in ('', ',1', ',2', ',3', ',8', ',9', ',0'):
                for en in ('', ',msb', ',lsb', ',xsb'):
                    if en and not ln:
                        continue
                    for nm in ('', ',foo'):
                        for img in ([0x01, 0x01, 0x01, 0x01], [0x01, 0x00, 0x01, 0x02]):
                            yield {'k': 'dasl', 'cpu': cpu, 'img': img, 'entry': '(%d%s%s)%s' % (va, ln, en, nm)}
        for e in ('(', '()', '(256', '256)', ',', ',foo', '(256,2),', '((256))', '(,2)', '(256,,lsb)', '(256,2,lsb,x)', '0x100', '$100', '-1', '(-1,2)'):
            yield {'k': 'dasl', 'cpu': cpu, 'img': [0x01, 0x01, 0x01, 0x01], 'entry': e}


def describe(case):
    k = case['k']
    if k == 'raw':
        return 'source bytes %r (%s)' % (bytes(case['b']), case['mode'])
    if k == 'stmt':
        return 'cpu %s / %s%s %s%s' % (case['cpu'], 'lbl ' if case['lab'] else '', case['op'].lower(), ','.join(case['args']), ' / ' + CLOSE[case['op']] if case['close'] and case['op'] in CLOSE else '')
    return case


def classify(tool, o, variant, what, okset, sigbase):
    ck = core.crashkind(o)
    if ck:
        return ck
    if o.rc not in okset:
        return 'status-%s' % o.rc
    return None


def site_of(run_fn):
    """re-run on the asan build to obtain a call-site signature"""
    o = run_fn('asan')
    ck = core.crashkind(o)
    if ck == 'ASAN' or (o.err and b'AddressSanitizer' in o.err):
        return core.asan_site(o.err)
    if ck == 'HANG':
        return 'HANG'
    return 'plain-only-' + str(ck)


BIG = ('65536', '2147483648')


def finish(run_fn, first, okset, desc, group, big_ok=True):
    o = first
    ck = core.crashkind(o)
    if ck == 'HANG':
        o2 = run_fn('plain', 12)
        if core.crashkind(o2) != 'HANG':
            o, ck = o2, core.crashkind(o2)
    if ck:
        site = site_of(run_fn) if ck != 'HANG' else 'HANG'
        return core.R(False, ck, '%s/%s/%s' % (group, 'hang' if ck == 'HANG' else 'crash', site), '%s (%s) on %s' % (ck, site, desc), transitions=2)
    if o.rc is None:
        # output hit the file-size cap: work proportional to the described image is not a violation - but only an input that
        # names a large count or address can describe that much work; otherwise the output is a runaway loop
        if not big_ok:
            return core.R(False, 'runaway-output', '%s/runaway-output' % group, 'output grows beyond %d bytes although the input names no large count, on %s' % (FSIZE_CAP, desc), transitions=2)
        return core.R(True, 'fsize-cap', nontrivial=False)
    if o.rc not in okset:
        last = [l for l in (o.err + o.out).decode('latin-1').strip().split('\n') if l.strip()][-1:] or ['']
        slug = re.sub(r"'[^']*'", '', last[0])
        slug = re.sub(r'[^A-Za-z]+', '-', slug).strip('-')[:40]
        return core.R(False, 'status', '%s/status-%s/%s' % (group, o.rc, slug), 'undocumented exit status %s (%s) on %s' % (o.rc, last[0][:80], desc))
    return None


def evaluate(case):
    k = case['k']
    if k == 'raw':
        data = bytes(case['b'])
        src = data if case['mode'] == 'file' else b'\tcpu 8080\n\tdb ' + data + b'\n'

        def run(v, to=4):
            core.fresh()
            core.put('a.asm', src)
            return core.run('asl', ['-q', 'a.asm'], variant=v, timeout=to)
        o = run('plain')
        r = finish(run, o, ASL_OK, describe(case), 'asl/raw', big_ok=False)
        return r or core.R(True, 'rc%s' % o.rc, nontrivial=o.rc != 0, states=['raw%s' % o.rc])
    if k == 'stmt':
        op = case['op']
        src = '\tcpu %s\n%s\t%s %s\n\tnop\n' % (case['cpu'], 'lbl' if case['lab'] else '', op.lower(), ','.join(case['args']))
        if case['close'] and op in CLOSE:
            src += '\t%s\n' % CLOSE[op]
        if op == 'WHILE' and case['args'] and case['args'][0] not in ('0', '', "''", '?', 'x'):
            return core.R(True, 'excluded-while', nontrivial=False, transitions=0)

        def run(v, to=4):
            core.fresh()
            core.put('a.asm', src)
            for nm in ('s', 's.inc', 's.bin'):        # (INCLUDE/BINCLUDE append a default extension to a bare name)
                core.put(nm, 'x equ 1\n')
            return core.run('asl', ['-q', 'a.asm'], variant=v, timeout=to)
        o = run(case['v'])
        r = finish(run, o, ASL_OK, describe(case), 'asl/%s' % op, big_ok=any(a in BIG for a in case['args']))
        return r or core.R(True, 'rc%s' % o.rc, nontrivial=o.rc != 0, states=['%s/%d' % (op, o.rc)])
    if k == 'corpus':
        t = case['t']

        def run(v, to=20):
            core.fresh()
            d = os.path.join(core.workdir(), 'src')
            os.makedirs(d, exist_ok=True)
            corpus.prep(t, d)
            p = os.path.join(d, t + '.asm')
            lines = open(p, 'rb').read().decode('latin-1').split('\n')
            lines[case['line']] = case['new']
            open(p, 'wb').write('\n'.join(lines).encode('latin-1'))
            return core.run('asl', corpus.flags(t) + ['-q', '-i', corpus.incdir(), t + '.asm'], variant=v, cwd=d, timeout=to, maxout=1 << 16)
        o = run('asan')
        # (a source of megabytes describes megabytes of listing and diagnostics by itself)
        big_src = os.path.getsize(os.path.join(corpus.tdir(), t, t + '.asm')) * 8 > FSIZE_CAP
        r = finish(run, o, ASL_OK, '%s line %d := %r' % (t, case['line'] + 1, case['new']), 'asl/operand', big_ok=big_src or any(b in case['new'] for b in BIG))
        return r or core.R(True, 'rc%s' % o.rc, nontrivial=o.rc != 0, states=['%s/%d' % (t, o.rc)])
    if k == 'seq':
        if case['fam'] == 'pp':
            src = '\tcpu 8080\n' + '\n'.join(PP[i] for i in case['seq']) + '\n\tnop\n'
        elif case['fam'] == 'pushv':
            src = '\tcpu 8080\nx\tset 1\n' + '\n'.join(PV[i] for i in case['seq']) + '\n\tnop\n'
        elif case['fam'] == 'binclude':
            src = '\tcpu 8080\n' + '\n'.join(BINC[i] for i in case['seq']) + '\n\tnop\n'
        elif case['fam'] == 'rseg':
            e = case['seq'][0]
            src = '\tcpu 8051\n\textern_sym ext1,ext2\n\trseg\nlab1:\tnop\nlab2:\tmov dptr,#(%s)\n\tljmp %s\n\tdw %s\n' % (e, e, e)
        elif case['fam'] == 'grow':
            q = case['seq']
            if q[0] == 'def':
                src = '\tcpu 8080\n#define X %s1\n\tdb %s\n' % ('1+' * (q[1] // 2), ','.join(['X'] * q[2]))
            elif q[0] == 'listwrap':
                src = '\tcpu 8080\n\tpage 10,%d\n\tnop ; %s\n\tnop\n' % (q[1], q[3] * q[2])
            elif q[0] == 'defdef':
                src = '\tcpu 8080\n' + ''.join('#define X%d X%d+X%d\n' % (i, i + 1, i + 1) for i in range(q[1])) + '#define X%d 1\n\tdw X0\n' % q[1]
            else:
                line = ('\tnop' + '\t' * q[2]) if q[3] == 'tail' else ('\tdb' + '\t' * q[2] + '1')
                head = {'macro': 'm\tmacro', 'rept': '\trept 2', 'irp': '\tirp p,1,2', 'irpc': '\tirpc p,12', 'while': 'c\tset 0\n\twhile c<2\nc\tset c+1'}[q[1]]
                src = '\tcpu 8080\n%s\n%s\n\tendm\n%s\tnop\n' % (head, line, '\tm\n' if q[1] == 'macro' else '')
        else:
            src = '\tcpu %s\nflags\tstruct\n%s\nflags\tendstruct\n\tnop\n' % (case['cpu'], '\n'.join(STRUCT_T[case['cpu']][i] for i in case['seq']))

        def run(v, to=6):
            core.fresh()
            core.put('a.asm', src)
            core.put('s.bin', '12345678')
            return core.run('asl', ['-q'] + case.get('opt', []) + ['a.asm'], variant=v, timeout=to, maxout=1 << 16)
        o = run('asan')
        r = finish(run, o, ASL_OK, (src if len(src) < 400 else src[:200] + '...' + src[-100:]).replace('\n', ' / ') + ' | asl ' + ' '.join(case.get('opt', [])), 'asl/seq/' + case['fam'], big_ok=False)
        return r or core.R(True, 'rc%s' % o.rc, nontrivial=True, states=['seq%s' % o.rc])
    if k in ('nest', 'count', 'ctx'):
        src, opt = nest_src(case)

        def run(v, to=6):
            core.fresh()
            core.put('a.asm', src)
            core.put('self.inc', '\tinclude "self.inc"\n')
            return core.run('asl', ['-q'] + opt + ['a.asm'], variant=v, timeout=to, maxout=1 << 16)
        o = run('asan')
        r = finish(run, o, ASL_OK, 'nesting %s' % {x: case[x] for x in case if x != 'k'}, 'asl/nest/' + case.get('kind', case.get('kw', 'ctx')),
                   big_ok=(k == 'count' and case['cnt'] in BIG))
        return r or core.R(True, 'rc%s' % o.rc, nontrivial=True, states=['n%s' % o.rc])
    if k == 'file':
        seed = seeds()[case['seed']]
        mut = case['mut']
        if mut[0] == 'reloc':
            data = reloc_file(tuple(mut[1]), tuple(mut[2]), rdata=bool(mut[3]))
        elif mut[0] == 'reloc-addr':
            data = reloc_file(pos=(3, 3), rdata=True, hdr=mut[1], addr=mut[2], rtype=mut[3])
        elif mut[0] == 'reloc-unterminated':
            data = reloc_file(tuple(mut[1]), tuple(mut[2]), strings=b'ab\0cd', rdata=bool(mut[3]))
        else:
            data = seed[:mut[1]] if mut[0] == 'trunc' else seed[:mut[1]] + bytes([mut[2]]) + seed[mut[1] + 1:]
        name, args = TOOLS[case['tool']]()

        def run(v, to=4):
            core.fresh()
            core.put('x.p', data)
            return core.run(name, args, variant=v, timeout=to, maxout=1 << 16)
        o = run('asan')
        d = '%s on seed %s %s' % (case['tool'], case['seed'], mut)
        r = finish(run, o, TOOL_OK, d, 'tool/' + name)
        if r:
            return r
        cls = pfile.classify(data)
        if cls == 'bad magic' and len(data) >= 2 and o.rc != 3:
            return core.R(False, 'format-status', 'tool/%s/bad-magic-status-%s' % (name, o.rc), 'bad magic must give the format-error status 3, got %s: %s' % (o.rc, d))
        if cls == 'record length beyond end of file' and o.rc == 0 and name != 'alink':
            return core.R(False, 'format-status', 'tool/%s/overlong-record-accepted' % name, 'record longer than the file accepted with status 0: ' + d)
        return core.R(True, 'rc%s' % o.rc, nontrivial=True, states=['%s/%d' % (name, o.rc)])
    if k == 'toolopt':
        name = case['tool']
        args = {'p2bin': ['-q', 'x.p', 'x.bin'], 'p2hex': ['-q', 'x.p', 'x.hex'], 'plist': ['x.p'], 'pbind': ['-q', 'x.p', 'y.p']}[name] + case['opt']

        def run(v, to=6):
            core.fresh()
            core.put('x.p', seeds()['twoseg'])
            return core.run(name, args, variant=v, timeout=to, maxout=1 << 16)
        o = run('asan')
        d = '%s %s' % (name, ' '.join(a if len(a) < 60 else a[:40] + '...(%d characters)' % len(a) for a in case['opt']) if len(case['opt']) < 20 else '%s x %d' % (case['opt'][0], len(case['opt'])))
        r = finish(run, o, TOOL_OK, d, 'tool/%s/option/%s' % (name, case['opt'][0] if case['opt'] else 'none'), big_ok=False)
        return r or core.R(True, 'rc%s' % o.rc, nontrivial=True, states=['%s-opt/%d' % (name, o.rc)])
    if k == 'dasl':
        img = bytes(case['img'])

        def run(v, to=4):
            core.fresh()
            core.put('i.bin', img)
            return core.run('dasl', ['-cpu', case['cpu'], '-binfile', 'i.bin@256', '-entryaddress', case.get('entry', '256')], variant=v, timeout=to, maxout=1 << 16)
        o = run('asan')
        grp = 'tool/dasl/' + case['cpu'] + ('/entry-vector' if 'entry' in case else '')
        if case['cpu'] == '87C00' and len(img) >= 2 and 0xec <= img[0] <= 0xef and img[1] == 0xfe:
            grp += '/relative-jump-to-itself'
        r = finish(run, o, TOOL_OK | {4}, 'dasl -cpu %s -entryaddress %s on image %s' % (case['cpu'], case.get('entry', '256'), img.hex()), grp, big_ok=False)
        return r or core.R(True, 'rc%s' % o.rc, nontrivial=True, states=['dasl%s' % o.rc])
    raise ValueError(k)


def nest_src(case):
    k = case['k']
    opt = []
    if k == 'count':
        kw = case['kw']
        if kw == 'irpn':
            body = '\tirpn %s,x,1,2\n\tnop\n\tendm\n' % case['cnt']
        elif kw == 'while':
            body = 'n\tset 0\n\twhile n<(%s)\n\tnop\nn\tset n+1\n\tif n>20\n\texitm\n\tendif\n\tendm\n' % case['cnt']
        else:
            body = '\trept %s\n\tnop\n\tendm\n' % case['cnt']
        return '\tcpu 8080\n' + body, opt
    if k == 'ctx':
        lines = ['\tcpu 8080']
        if case['ctx']:
            lines.append(('\t' if ' ' not in case['ctx'] or case['ctx'].split()[0] in ('irp', 'rept', 'if', 'section') else '') + case['ctx'].replace(' ', '\t', 1) if case['ctx'].split()[0] not in ('m', 'x') else case['ctx'].replace(' ', '\t', 1))
        for b in case['body']:
            lines.append(('\t' + b) if b.split()[0] not in ('m', 'x') or len(b.split()) == 1 else b.replace(' ', '\t', 1))
        closer = {'irp x,1,2': 'endm', 'rept 2': 'endm', 'm macro': 'endm', 'if 1': 'endif', 'x struct': 'x endstruct', 'section s': 'endsection', '': None}[case['ctx']]
        if closer:
            lines.append('\t' + closer if not closer.startswith('x ') else closer.replace(' ', '\t', 1))
        if case['ctx'] == 'm macro':
            lines.append('\tm')
        lines.append('\tnop')
        return '\n'.join(lines) + '\n', case['opt']
    kind, n = case['kind'], case['depth']
    L = ['\tcpu 8080']
    if kind == 'rept':
        L += ['\trept 1'] * n + ['\tnop'] + ['\tendm'] * n
    elif kind == 'irp':
        L += ['\tirp x%d,1' % i for i in range(n)] + ['\tnop'] + ['\tendm'] * n
    elif kind == 'irpc':
        L += ['\tirpc x%d,ab' % i for i in range(min(n, 17))] + ['\tnop'] + ['\tendm'] * min(n, 17)
    elif kind == 'irpn':
        L += ['\tirpn 1,x%d,1' % i for i in range(n)] + ['\tnop'] + ['\tendm'] * n
    elif kind == 'macro':
        L += ['m\tmacro x', '\tif x>0', '\tm x-1', '\tendif', '\tendm', '\tm %d' % n]
    elif kind == 'struct':
        L += ['s%d\tstruct' % i for i in range(n)] + ['f\tdb ?'] + ['s%d\tendstruct' % i for i in reversed(range(n))]
    elif kind == 'section':
        L += ['\tsection s%d' % i for i in range(n)] + ['\tnop'] + ['\tendsection'] * n
    elif kind == 'if':
        L += ['\tif 1'] * n + ['\tnop'] + ['\tendif'] * n
    elif kind == 'include':
        L += ['\tinclude "self.inc"']
    elif kind == 'paren':
        L += ['\tdb ' + '(' * n + '1' + ')' * n, '\tdb ' + '-' * n + '1', '\tdb ' + '+'.join(['1'] * min(n, 5000)), '\tdb ' + 'abs(' * n + '1' + ')' * n]
    elif kind == 'funcrec':
        L += ['f\tfunction x,' + case['body'], 'g\tfunction x,f(x)', '\tdb f(1)', '\tdb g(2)']
    elif kind == 'funcargs':
        L += ['\tdb %s(%s)' % (case['fn'].lower(), ','.join([case['arg']] * n))]
    elif kind == 'save':
        L += ['\tsave'] * n + ['\trestore'] * (n + 1)
    elif kind == 'phase':
        L += ['\tphase 100h'] * n + ['\tdephase'] * (n + 1)
    elif kind == 'pushv':
        L += ['x\tset 1'] + ['\tpushv s,x'] * n + ['\tpopv s,x'] * (n + 1)
    return '\n'.join(L) + '\n', opt
