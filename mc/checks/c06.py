"""C06 - P2HEX output decodes, with valid checksums, to the code file's contents.

Code files written by the independent writer (addresses below, at and across the 64 KiB / 1 MiB / 16 MiB boundaries,
data shorter and longer than one line, one or two records, optional entry record) are converted to every format
under every option set within k deviations; the independent decoders verify syntax, every count and checksum
field, and the decoded address->byte map must equal the selected records after -r/-R/-a.
"""
import itertools
from .. import core
from ..fmt import pfile, hexfmt

ID = 'C06'
LEVEL = 'model_checking'
VARIANTS = ['plain']
CHUNK = 32
ENGINE = 'product-enumerator'
TECHNIQUE = 'exhaustive code-file layouts x formats x option deviations executed on the real p2hex, decoded by independent format decoders with checksum verification'
LEVEL_TEXT = ('For 8 formats (Motorola S, Intel 8/16/32, MOS, Tektronix, Atmel generic, C array; plus the per-family default), record starts at and '
              'across the 64 KiB / 1 MiB / 16 MiB boundaries, 10 lengths, one and two records, entry addresses from the file and from -e, and every '
              'option set within 1 (quick) / 2 (thorough) deviations over -r/-R/-a/-l/-M/+5/-i/-m/-e/-avrlen, the rebuilt p2hex output is parsed by '
              'independent decoders that verify every count and checksum field; the decoded map, entry address, line length, S-record grouping and '
              'extension records are compared with the model.'
              ' Records with 4 bytes per address are converted under the three Intel formats with automatic and explicit ranges.'
              ' Four-byte address units with line lengths that are not a multiple of the unit and with -m 1, and the data segment selected with -segment together with -r/-a/-R, are enumerated.')
LEVEL_NOTE = ('Trusted: the decoders in mc/fmt/hexfmt.py written from the public format definitions (self-tested on hand-computed vectors). '
              'A missing overflow warning is a violation only when the final address does not fit the format; superfluous warnings are not.')
RULE = 'layout x format x option set; non-trivial = all'
BOUNDS = {'quick': 'one-record files, k<=1 (+ two-record files without options)', 'thorough': 'two-record files, k<=2'}
ASSUMPTIONS = ['-a makes addresses relative to the start of the address window']

STARTS = [0, 0xfff0, 0xffff, 0x10000, 0xffff0, 0x100000, 0xfffff0, 0x1000000]
LENS = [1, 2, 15, 16, 17, 33, 255, 256, 300]
FMTS = ['Moto', 'Intel', 'Intel16', 'Intel32', 'MOS', 'Tek', 'C']
MAXA = {'Moto': 0xffffffff, 'Intel32': 0xffffffff, 'Intel16': 0xfffff, 'Intel': 0xffff, 'MOS': 0xffff, 'Tek': 0xffff, 'C': 0xffffffff}
DEC = {'Moto': hexfmt.dec_moto, 'Intel': hexfmt.dec_intel, 'Intel16': hexfmt.dec_intel, 'Intel32': hexfmt.dec_intel, 'MOS': hexfmt.dec_mos,
       'Tek': hexfmt.dec_tek, 'C': hexfmt.dec_c}
OPTS = [['-l', '2'], ['-l', '3'], ['-l', '17'], ['-l', '32'], ['-l', '250'], ['-l', '254'], ['-M', '2'], ['-M', '3'], ['+5'], ['-i', '1'], ['-i', '2'],
        ['-e', '0x1234'], ['-R', '0x100'], ['-R', '0x10'], ['-a'], ['-r', '0x-0x'], ['-r', 'WIN'], ['-r', 'CLIP']]
DEFAULT_OF = {0x01: 'Moto', 0x11: 'MOS', 0x41: 'Intel', 0x51: 'Intel'}


def payload(n, salt=0):
    return bytes((i * 7 + 3 + salt) & 0xff for i in range(n))


def optsets(k):
    out = [[]]
    for r in range(1, k + 1):
        for c in itertools.combinations(range(len(OPTS)), r):
            names = [OPTS[i][0] for i in c]
            if len(set(names)) < len(names):
                continue
            out.append([OPTS[i] for i in c])
    return out


def subspaces(tier):
    q = tier == 'quick'
    k = 1 if q else 2
    subs = []

    def one(k):
        for f in FMTS:
            for st in STARTS:
                for ln in LENS:
                    for o in optsets(k):
                        for ent in (None, 0x12320) if (not o and ln in (16, 300)) or (not q and ln == 17) else (None,):
                            yield {'fmt': f, 'recs': [[0x41, st, ln]], 'entry': ent, 'opts': o}
    subs.append(('one-record x formats x opts<=%d' % k, one(k)))

    def two(k):
        for f in FMTS:
            for st in STARTS:
                for l1 in (1, 16, 17, 300):
                    # second record: adjacent+gap, across the next 64K boundary, and far below
                    for st2, l2 in ((st + l1 + 5, 20), (((st + l1) | 0xffff) - 3, 8), (0x20, 4), (st + 0x20000, 3)):
                        if st2 < st + l1 and st2 + l2 > st:
                            continue
                        for o in optsets(k if not q else 0) + ([[['-R', '0x100']], [['-a']], [['+5']]] if q else []):
                            yield {'fmt': f, 'recs': [[0x41, st, l1], [0x41, st2, l2]], 'entry': None, 'opts': o}
    subs.append(('two-records x formats', two(k)))

    def dflt():
        for cpu in DEFAULT_OF:
            for st in (0, 0xfff8, 0x12345):
                for ln in (1, 16, 40):
                    for ent in (None, 0x44):
                        yield {'fmt': None, 'recs': [[cpu, st, ln]], 'entry': ent, 'opts': []}
    subs.append(('default-format-per-family', dflt()))

    def wordgran():
        for st in (0, 1, 0x7fff, 0x8000):
            for nw in (1, 2, 8, 9):
                for m in (None, 0, 1, 2, 3):
                    for l in (None, 4):
                        yield {'fmt': 'PIC', 'recs': [[0x70, st, nw]], 'entry': None, 'opts': ([['-m', str(m)]] if m is not None else []) + ([['-l', str(l)]] if l else [])}
        for st in (0, 1, 0xffff, 0x10000):
            for nw in (1, 2, 3):
                for al in (None, 2, 3):
                    yield {'fmt': 'AVR', 'recs': [[0x3b, st, nw]], 'entry': None, 'opts': [['-avrlen', str(al)]] if al else []}
    subs.append(('word-granular-intel-m-and-atmel', wordgran()))

    def quad():
        # 4 bytes per address (TMS320C3x): the automatic address range is computed in address units from byte lengths
        for f in ('Intel', 'Intel16', 'Intel32'):
            for o in ([], [['-r', '0x-0x']], [['-r', 'WIN']], [['-l', '4']], [['-l', '32']], [['-l', '6']], [['-l', '2']], [['-l', '10']], [['-m', '1']],
                      [['-l', '6'], ['-m', '1']], [['-l', '18'], ['-m', '1']]):
                for st in (0, 0x40, 0x100, 0x3f0):
                    for nw in (1, 2, 3, 5, 11, 16, 17):
                        yield {'fmt': f, 'recs': [[0x76, st, nw]], 'entry': None, 'opts': o}
                for (s1, n1), (s2, n2) in (((0x100, 11), (0x40, 3)), ((0x40, 3), (0x100, 11)), ((0x10, 1), (0x11, 7)), ((0x200, 16), (0x20, 16))):
                    yield {'fmt': f, 'recs': [[0x76, s1, n1], [0x76, s2, n2]], 'entry': None, 'opts': o}
    subs.append(('four-byte-granular-intel', quad()))

    def bankcross():
        # the 64 KiB banks of the Intel formats are banks of BYTE addresses: records of 2 and 4 bytes per address unit that reach and
        # cross the first and the second bank limit
        for hdr, g in ((0x70, 2), (0x76, 4)):
            lim = 0x10000 // g
            for f in ('Intel32', 'Intel16', 'Intel'):
                for st in (lim - 4, lim - 1, lim, 2 * lim - 2, 3 * lim - 1):
                    for nw in (1, 3, 9, 17):
                        for o in ([], [['-l', '32']], [['-l', '%d' % (3 * g)]]):
                            yield {'fmt': f, 'recs': [[hdr, st, nw]], 'entry': None, 'opts': o}
    subs.append(('bank-limits-in-wide-units', bankcross()))

    def dskmico():
        # TI DSK (16-bit words, program and data memory) and Lattice Mico8 (18-bit words without addresses)
        for seg in (1, 2):
            for st in (0, 1, 0x7ff0, 0xfff0):
                for nw in (1, 2, 7, 8, 9, 17):
                    for ent in (None, 0x123):
                        yield {'fmt': 'DSK', 'recs': [[0x74, st, nw]], 'entry': ent, 'opts': [], 'seg': seg}
        for nw in (1, 2, 3, 16, 17, 300):
            for salt in (0, 1, 2):
                yield {'fmt': 'Mico8', 'recs': [[0x5c, 0, nw]], 'entry': None, 'opts': [], 'salt': salt}
    subs.append(('ti-dsk-and-mico8', dskmico()))

    def dataseg():
        # -segment data: the options that select and move addresses apply to the segment that is converted
        for f in ('Moto', 'Intel', 'Intel32', 'MOS', 'Tek', 'C'):
            for o in ([], [['-r', 'WIN']], [['-r', 'CLIP']], [['-r', '0x-0x']], [['-R', '0x100']], [['-r', 'CLIP'], ['-a']], [['-r', 'CLIP'], ['-R', '0x100']], [['-l', '4']]):
                for st in (0x30, 0x7e):
                    for n in (1, 5, 20):
                        yield {'fmt': f, 'recs': [[0x31, st, n]], 'entry': None, 'opts': o, 'seg': 2}
                yield {'fmt': f, 'recs': [[0x31, 0x30, 4], [0x31, 0x40, 6]], 'entry': None, 'opts': o, 'seg': 2}
    subs.append(('data-segment-selected', dataseg()))

    def multifile():
        # several source files, each with or without an (offset) suffix
        for f in ('Moto', 'Intel', 'Intel32', 'C'):
            for offs in itertools.product((None, 0, 0x10, 0x1000), repeat=2):
                for o in ([], [['-R', '0x100']]):
                    yield {'fmt': f, 'files': [{'rec': [0x41, 0x300, 5], 'off': offs[0]}, {'rec': [0x41, 0x200, 4], 'off': offs[1]}], 'opts': o}
            for offs in itertools.product((None, 0x20), repeat=3):
                yield {'fmt': f, 'files': [{'rec': [0x41, 0x300 + 0x40 * i, 3], 'off': offs[i]} for i in range(3)], 'opts': []}
    subs.append(('several-files-with-offsets', multifile()))
    subs.append(('records-with-export-entries', [{'fmt': f, 'exp': e, 'n': n} for f in ('Moto', 'Intel', 'MOS', 'Tek', 'C') for e in (0, 1, 2, 3) for n in ((4, 4), (1, 20))]))
    return subs


def ev_exportrec(case):
    """a code file in which a data record is marked 'with symbols' (EXPORT_SYM behind it): the data is data all the same"""
    core.fresh()
    n1, n2 = case['n']
    src = '\tcpu 8051\n\torg 100h\nfoo:\tdb %s\n%s\torg 200h\nbar:\tdb %s\n%s' % (
        ','.join(str(1 + i) for i in range(n1)), '\texport_sym foo\n' if case['exp'] & 1 else '', ','.join(str(101 + i) for i in range(n2)), '\texport_sym bar\n' if case['exp'] & 2 else '')
    core.put('a.asm', src)
    o = core.run('asl', ['-q', 'a.asm'])
    if o.rc != 0:
        return core.R(False, 'setup', 'exportrec/asl', 'asl rc=%s on %s' % (o.rc, src.replace('\n', ' / ')))
    want = {0x100 + i: 1 + i for i in range(n1)}
    want.update({0x200 + i: 101 + i for i in range(n2)})
    d = 'p2hex -F %s on the code file of: %s' % (case['fmt'], src.replace('\n', ' / '))
    o = core.run('p2hex', ['-q', 'a.p', 'a.hex', '-F', case['fmt']])
    ck = core.crashkind(o)
    if ck:
        return core.R(False, ck, 'exportrec/crash/' + ck, '%s on %s' % (ck, d), transitions=2)
    if o.rc != 0:
        return core.R(False, 'rc', 'exportrec/rc', 'exit %s on %s' % (o.rc, d), transitions=2)
    try:
        mem, entry, info = DEC[case['fmt']]((core.get('a.hex') or b'').decode('latin-1').replace('\r', ''))
    except hexfmt.FmtErr as e:
        return core.R(False, 'format', 'exportrec/format', '%s on %s' % (e, d), transitions=2)
    if mem != want:
        bad = [a for a in sorted(set(mem) | set(want)) if mem.get(a) != want.get(a)][:3]
        return core.R(False, 'contents', 'exportrec/contents/%s' % ('data-of-a-record-with-symbols-missing' if len(mem) < len(want) else 'other'), 'decoded contents differ at %s on %s' % ([hex(a) for a in bad], d), transitions=2)
    return core.R(True, 'decoded-ok', states=['exportrec:%d' % case['exp']], transitions=2)


def describe(case):
    if 'exp' in case:
        return case
    if 'files' in case:
        return 'p2hex -F %s %s  on %s' % (case['fmt'], ' '.join(' '.join(o) for o in case['opts']), ['cpu=%02x start=%x len=%d%s' % (tuple(f['rec']) + ('' if f['off'] is None else ' (offset %x)' % f['off'],)) for f in case['files']])
    return 'p2hex %s %s  on %s%s' % ('-F ' + case['fmt'] if case['fmt'] not in (None, 'PIC', 'AVR') else '(default format)',
                                     ' '.join(' '.join(o) for o in case['opts']), [('cpu=%02x start=%x len=%d' % tuple(r)) for r in case['recs']],
                                     ' entry=%x' % case['entry'] if case['entry'] is not None else '')


def ev_wordlist(case):
    """DSK and Mico8: word-oriented formats with their own decoders"""
    core.fresh()
    fmt = case['fmt']
    cpu, st, nw = case['recs'][0]
    d = describe(case)
    if fmt == 'DSK':
        words = [(i * 0x1357 + 0x00ff + st) & 0xffff for i in range(nw)]
        data = b''.join(w.to_bytes(2, 'little') for w in words)
        wr = [dict(kind='data', cpu=cpu, seg=case['seg'], gran=2, start=st, data=data, short=False)]
        if case['entry'] is not None:
            wr.append(dict(kind='entry', entry=case['entry']))
        args = ['-F', 'DSK'] + (['-segment', 'data'] if case['seg'] == 2 else [])
    else:
        # every word has all-ones, all-zeros and mixed bytes in its middle position
        words = [((i + case['salt']) % 4) << 16 | ((0xff, 0x00, 0xa5, 0xfe)[(i + case['salt']) % 4]) << 8 | (i * 37 + 1) & 0xff for i in range(nw)]
        data = b''.join(w.to_bytes(4, 'big') for w in words)
        wr = [dict(kind='data', cpu=cpu, seg=1, gran=4, start=0, data=data, short=False)]
        args = ['-F', 'Mico8']
    core.put('a.p', pfile.write(wr))
    o = core.run('p2hex', ['-q', 'a.p', 'a.hex'] + args)
    ck = core.crashkind(o)
    if ck:
        return core.R(False, ck, 'crash/%s/%s' % (ck, fmt), '%s on %s' % (ck, d))
    if o.rc != 0:
        return core.R(False, 'rc', 'rc/' + fmt, 'exit %s %s on %s' % (o.rc, o.err[:100].decode('latin-1'), d))
    text = (core.get('a.hex') or b'').decode('latin-1').replace('\r', '')
    try:
        mem, entry, info = (hexfmt.dec_dsk if fmt == 'DSK' else hexfmt.dec_mico8)(text)
    except hexfmt.FmtErr as e:
        return core.R(False, 'format', 'format/%s/%s' % (fmt, str(e).split('(')[0].strip()[:40].replace(' ', '-')), '%s: %s on %s\n%s' % (fmt, e, d, text[:300]))
    if fmt == 'DSK':
        tag = 'B' if case['seg'] == 1 else 'M'
        want = {(tag, (st + i) & 0xffff): w for i, w in enumerate(words)}
        if entry != case['entry']:
            return core.R(False, 'entry', 'entry/DSK', 'entry record %s, code file %s on %s' % (entry, case['entry'], d))
    else:
        want = dict(enumerate(words))
    if mem != want:
        bad = [a for a in sorted(set(mem) | set(want), key=str) if mem.get(a) != want.get(a)][:3]
        return core.R(False, 'contents', 'contents/%s' % fmt, 'decoded contents differ at %s (decoded, model): %s on %s' % (bad, [(mem.get(a), want.get(a)) for a in bad], d))
    return core.R(True, 'decoded-ok', states=['%s/%d' % (fmt, nw)])


def ev_multifile(case):
    core.fresh()
    fmt = case['fmt']
    names = []
    want = {}
    R = 0
    for o in case['opts']:
        if o[0] == '-R':
            R = int(o[1], 16)
    for i, f in enumerate(case['files']):
        cpu, st, ln = f['rec']
        data = payload(ln, 40 * i)
        core.put('f%d.p' % i, pfile.write([dict(kind='data', cpu=cpu, seg=1, gran=1, start=st, data=data, short=True)]))
        names.append('f%d.p' % i + ('' if f['off'] is None else '(%s)' % hex(f['off'])))
        for k, b in enumerate(data):
            want[st + (f['off'] or 0) + R + k] = b
    o = core.run('p2hex', ['-q'] + names + ['a.hex', '-F', fmt] + [x for op in case['opts'] for x in op])
    d = describe(case)
    ck = core.crashkind(o)
    if ck:
        return core.R(False, ck, 'crash/%s/files' % ck, '%s on %s' % (ck, d))
    if o.rc != 0:
        return core.R(False, 'rc', 'rc/files', 'exit %s %s on %s' % (o.rc, o.err[:100].decode('latin-1'), d))
    text = (core.get('a.hex') or b'').decode('latin-1').replace('\r', '')
    try:
        mem, entry, info = DEC[fmt](text)
    except hexfmt.FmtErr as e:
        return core.R(False, 'format', 'format/%s/files' % fmt, '%s: %s on %s\n%s' % (fmt, e, d, text[:300]))
    if mem != want:
        bad = [a for a in sorted(set(mem) | set(want)) if mem.get(a) != want.get(a)][:3]
        return core.R(False, 'contents', 'contents/%s/several-files' % fmt, 'decoded contents differ at %s (decoded, model): %s on %s' % ([hex(a) for a in bad], [(mem.get(a), want.get(a)) for a in bad], d))
    return core.R(True, 'decoded-ok', states=['files/%s/%d' % (fmt, len(names))])


def evaluate(case):
    if 'exp' in case:
        return ev_exportrec(case)
    if 'files' in case:
        return ev_multifile(case)
    if case['fmt'] in ('DSK', 'Mico8'):
        return ev_wordlist(case)
    core.fresh()
    fmt = case['fmt']
    recs = []
    for i, (cpu, st, ln) in enumerate(case['recs']):
        g = 2 if cpu in (0x70, 0x3b) else 4 if cpu == 0x76 else 1
        recs.append(dict(kind='data', cpu=cpu, seg=case.get('seg', 1), gran=g, start=st, data=payload(ln * g, i * 31), short=case.get('seg', 1) == 1))
    wr = list(recs)
    if case.get('seg', 1) != 1:
        # a code-segment record of the same file that the segment selection must leave out
        wr.append(dict(kind='data', cpu=case['recs'][0][0], seg=1, gran=1, start=0x20, data=b'\xee' * 5, short=True))
    if case['entry'] is not None:
        wr.append(dict(kind='entry', entry=case['entry']))
    core.put('a.p', pfile.write(wr))
    lo = min(r['start'] for r in recs)
    hi = max(r['start'] + len(r['data']) // r['gran'] - 1 for r in recs)
    args = ['-segment', 'data'] if case.get('seg', 1) == 2 else []
    win = (lo, hi)
    o_l, o_M, o_5, o_i, o_e, o_R, o_a, o_m, o_avr = 16, 1, False, 0, None, 0, False, 0, 3
    for o in case['opts']:
        if o[0] == '-r':
            if o[1] == 'WIN':
                win = (lo, hi)
                o = ['-r', '%s-%s' % (hex(lo), hex(hi))]
            elif o[1] == 'CLIP':
                if hi - lo < 2:
                    return core.R(True, 'skip', nontrivial=False, transitions=0)
                win = (lo + 1, hi - 1)
                o = ['-r', '%s-%s' % (hex(win[0]), hex(win[1]))]
        elif o[0] == '-l':
            o_l = max(2, int(o[1]) & ~1)
            if fmt == 'Moto' and o_l > 250:
                o_l = 250   # an S3 record cannot carry more
        elif o[0] == '-M':
            o_M = int(o[1])
        elif o[0] == '+5':
            o_5 = True
        elif o[0] == '-i':
            o_i = int(o[1])
        elif o[0] == '-e':
            o_e = int(o[1], 16)
        elif o[0] == '-R':
            o_R = int(o[1], 16)
        elif o[0] == '-a':
            o_a = True
        elif o[0] == '-m':
            o_m = int(o[1])
        elif o[0] == '-avrlen':
            o_avr = int(o[1])
        args += o
    if fmt in ('PIC', 'AVR', None):
        fargs = []
        eff = 'Intel' if fmt == 'PIC' else 'Atmel' if fmt == 'AVR' else DEFAULT_OF[case['recs'][0][0]]
    else:
        fargs = ['-F', fmt]
        eff = fmt
    o = core.run('p2hex', ['-q', 'a.p', 'a.hex'] + fargs + args)
    d = describe(case)
    sg = '%s/%s' % (eff, '+'.join(x[0] + (x[1] if x[0] in ('-l', '-M', '-m') else '') for x in case['opts']) or 'none')
    ck = core.crashkind(o)
    if ck:
        return core.R(False, ck, 'crash/%s/%s' % (ck, sg), '%s on %s' % (ck, d))
    if o.rc != 0:
        return core.R(False, 'rc', 'rc/' + sg, 'exit %s %s on %s' % (o.rc, o.err[:100].decode('latin-1'), d))
    text = (core.get('a.hex') or b'').decode('latin-1').replace('\r', '')
    # ---- model of the selected, transformed contents
    off = o_R - (win[0] if o_a else 0)
    want = {}
    over = False
    if fmt == 'PIC':
        for r in recs:
            for w in range(len(r['data']) // 2):
                a = r['start'] + w
                if not (win[0] <= a <= win[1]):
                    continue
                b0, b1 = r['data'][2 * w], r['data'][2 * w + 1]
                if o_m == 0:
                    want[2 * a] = b0
                    want[2 * a + 1] = b1
                elif o_m == 1:
                    want[2 * a] = b1
                    want[2 * a + 1] = b0
                elif o_m == 2:
                    want[a] = b0
                else:
                    want[a] = b1
        want = {k & 0xffff: v for k, v in want.items()}
    elif fmt == 'AVR':
        for r in recs:
            for w in range(len(r['data']) // 2):
                a = r['start'] + w
                want[a & ((1 << (8 * o_avr)) - 1)] = r['data'][2 * w] | (r['data'][2 * w + 1] << 8)
    else:
        for r in recs:
            g = r['gran']        # > 1 only in the four-byte-granular subspace (Intel formats: byte address = address * granularity)
            for i, x in enumerate(r['data']):
                a0 = r['start'] + i // g
                if not (win[0] <= a0 <= win[1]):
                    continue
                a = (a0 + off) * g + ((g - 1 - i % g) if (o_m == 1 and g > 1) else i % g)   # -m 1: the bytes of an address unit in reverse order
                if a > MAXA[eff] or a < 0:
                    over = True
                want[a] = x
    warned = b'overflow' in (o.err + o.out).lower() or b'berlauf' in (o.err + o.out).lower()
    if over:
        if not warned:
            return core.R(False, 'overflow-silent', 'overflow-not-warned/' + sg, 'final addresses exceed the %s range but no warning was given on %s' % (eff, d))
        return core.R(True, 'overflow-warned')
    tek_bytesum = False
    try:
        if fmt == 'AVR':
            mem, entry, info = hexfmt.dec_atmel(text, o_avr)
        elif eff == 'Tek':
            try:
                mem, entry, info = hexfmt.dec_tek(text)
            except hexfmt.FmtErr as e:
                if 'checksum' not in str(e):
                    raise
                mem, entry, info = hexfmt.dec_tek(text, bytesum=True)   # keep validating the rest under the variant actually written
                tek_bytesum = True
        else:
            mem, entry, info = DEC[eff](text)
    except hexfmt.FmtErr as e:
        return core.R(False, 'format', 'format/%s/%s' % (eff, str(e).split('(')[0].strip()[:40].replace(' ', '-')), '%s: %s on %s\n%s' % (eff, e, d, text[:300]))
    if mem != want:
        bad = [a for a in sorted(set(mem) | set(want)) if mem.get(a) != want.get(a)][:3]
        return core.R(False, 'contents', 'contents/' + sg, 'decoded contents differ at %s (decoded, model): %s on %s' % ([hex(a) for a in bad], [(mem.get(a), want.get(a)) for a in bad], d))
    # ---- format-specific field checks
    if 'maxpayload' in info and fmt != 'PIC' and info['maxpayload'] > max(o_l, max(r['gran'] for r in recs)):   # a line carries at least one address unit
        return core.R(False, 'linelen', 'linelen/' + sg, 'a line carries %d data bytes, -l allows %d on %s' % (info['maxpayload'], o_l, d))
    exp_entry = o_e if o_e is not None else case['entry']
    if eff == 'Moto':
        need = 1
        for a in want:
            need = max(need, 3 if a > 0xffffff else 2 if a > 0xffff else 1)
        ts = set(info['types'])
        if ts and min(int(t) for t in ts) < max(o_M, 1):
            return core.R(False, 'srec-type', 'srec-type/' + sg, 'S-record types %s below -M %d on %s' % (sorted(ts), o_M, d))
        if o_5 and info['groups']:
            return core.R(False, 's5', 's5-not-suppressed/' + sg, 'S5 record written despite +5 on ' + d)
        if not o_5 and want and not info['groups']:
            return core.R(False, 's5', 's5-missing/' + sg, 'no S5 record on ' + d)
        e_want = exp_entry if exp_entry is not None else 0
        if want and entry != e_want:
            return core.R(False, 'entry', 'entry/Moto/' + ('from-file' if o_e is None else '-e'), 'termination record carries entry %s, model %x on %s' % (entry, e_want, d))
    elif eff in ('Intel', 'Intel16', 'Intel32'):
        eofs = {0: '00000001FF', 1: '00000001', 2: '0000000000'}
        if exp_entry is None and info['eof'] is not None and info['eof'].upper() != eofs[o_i]:
            return core.R(False, 'eof', 'intel-eof/' + sg, 'last line :%s, documented :%s for -i %d on %s' % (info['eof'], eofs[o_i], o_i, d))
        if exp_entry is not None and eff != 'Intel' and entry != exp_entry:
            return core.R(False, 'entry', 'entry/%s/%s' % (eff, 'from-file' if o_e is None else '-e'), 'entry %s, model %x on %s' % (entry, exp_entry, d))
        if exp_entry is not None and eff == 'Intel' and o_i == 0 and entry != (exp_entry & 0xffff):
            return core.R(False, 'entry', 'entry/Intel', 'entry %s, model %x on %s' % (entry, exp_entry & 0xffff, d))
    elif eff == 'C':
        if exp_entry is not None and entry != exp_entry:
            return core.R(False, 'entry', 'entry/C', 'entry %s, model %x on %s' % (entry, exp_entry, d))
    if tek_bytesum:
        return core.R(False, 'tek-checksum', 'format/Tek/checksums-are-byte-sums-not-digit-sums', 'Tektronix checksums are sums of bytes, the format defines sums of hex digits, on %s: %s' % (d, text[:60]))
    return core.R(True, 'decoded-ok', states=['%s/%d' % (eff, len(want))])
