"""Rebuild /repo's current working tree into /verif/build/<variant> (cmake + ninja).

Every check calls ensure(variant) first.  ninja's dependency tracking makes this a no-op on an
unchanged tree and an incremental rebuild when anything under /repo was edited.  A flock serialises
concurrent checks that share a variant.
"""
import fcntl, os, subprocess, sys, time

REPO = os.environ.get('VERIF_REPO', '/repo')
ROOT = os.path.dirname(os.path.dirname(os.path.abspath(__file__)))
BUILD = os.environ.get('VERIF_BUILD', os.path.join(ROOT, 'build'))
GUARD = 'FLAMEWING_ASL_RELEASES_VERIF'

VARIANTS = {
    'plain': '-D%s' % GUARD,
    'asan': '-D%s -g -fsanitize=address -fno-omit-frame-pointer' % GUARD,
    'baseline': '',
}
TOOLS = ['asl', 'plist', 'pbind', 'p2bin', 'p2hex', 'alink', 'dasl']


class BuildError(Exception):
    pass


def bindir(variant):
    return os.path.join(BUILD, variant)


def ensure(variant='plain', quiet=True):
    d = bindir(variant)
    os.makedirs(d, exist_ok=True)
    lock = open(os.path.join(BUILD, '.lock-' + variant), 'w')
    fcntl.flock(lock, fcntl.LOCK_EX)
    try:
        t0 = time.time()
        if not os.path.exists(os.path.join(d, 'build.ninja')):
            cmd = ['cmake', '-G', 'Ninja', '-S', REPO, '-B', d, '-DCMAKE_BUILD_TYPE=Release',
                   '-DFORCE_COLORED_OUTPUT=OFF', '-DCMAKE_C_COMPILER=gcc',
                   '-DCMAKE_C_FLAGS=' + VARIANTS[variant]]
            r = subprocess.run(cmd, stdout=subprocess.PIPE, stderr=subprocess.STDOUT)
            if r.returncode != 0:
                raise BuildError('cmake failed:\n' + r.stdout.decode(errors='replace')[-4000:])
        r = subprocess.run(['ninja', '-C', d], stdout=subprocess.PIPE, stderr=subprocess.STDOUT)
        if r.returncode != 0:
            raise BuildError('ninja failed:\n' + r.stdout.decode(errors='replace')[-6000:])
        for t in TOOLS:
            if not os.path.exists(os.path.join(d, t)):
                raise BuildError('missing tool ' + t)
        if not quiet:
            print('build %s ok in %.1fs' % (variant, time.time() - t0))
        return d
    finally:
        fcntl.flock(lock, fcntl.LOCK_UN)
        lock.close()


def baseline_off():
    """Build with the guard OFF and run the repository's own 201 tests."""
    d = ensure('baseline', quiet=False)
    r = subprocess.run(['ctest', '--test-dir', d, '-j8', '--timeout', '900'],
                       stdout=subprocess.PIPE, stderr=subprocess.STDOUT)
    out = r.stdout.decode(errors='replace')
    tail = '\n'.join(out.strip().split('\n')[-8:])
    print(tail)
    return r.returncode


if __name__ == '__main__':
    v = sys.argv[1] if len(sys.argv) > 1 else 'plain'
    if v == 'baseline-off':
        sys.exit(baseline_off())
    print(ensure(v, quiet=False))
