#!/bin/bash
# tools/try_mutant.sh <patch.diff> <Cxx> [tier]  - run a check against a scratch worktree of /repo with the patch applied
# (equivalent to: git -C /repo apply; ./check; git -C /repo checkout -- .   but does not disturb /repo or /verif/build)
set -u
patch=$(readlink -f "$1"); id=$2; tier=${3:-quick}
slot=${MUT_SLOT:-0}
wt=/dev/shm/mutrun$slot/wt; bd=/dev/shm/mutrun$slot/build
mkdir -p /dev/shm/mutrun$slot
if [ ! -d $wt ]; then git -C /repo worktree add -q --detach $wt HEAD || exit 3; fi
git -C $wt reset -q --hard; git -C $wt checkout -q --detach ${MUT_BASE:-$(git -C /repo rev-parse HEAD)} && git -C $wt checkout -q -- . || exit 3
git -C $wt apply "$patch" || { echo "PATCH DOES NOT APPLY"; exit 3; }
cd /verif
VERIF_REPO=$wt VERIF_BUILD=$bd VERIF_EVIDENCE_DIR=/dev/shm/mutrun$slot/evidence VERIF_REPLAY_DIR=/dev/shm/mutrun$slot/replays ./check $id --tier $tier > /dev/shm/mutrun$slot/out.txt 2>&1
rc=$?
grep -c "^VIOLATION" /dev/shm/mutrun$slot/out.txt | sed "s/^/violations: /"
grep "signature=" /dev/shm/mutrun$slot/out.txt | cut -c1-300 | head -8
echo "exit=$rc"
git -C $wt checkout -q -- .
