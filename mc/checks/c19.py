"""C19 - listing, debug map and share file state the facts of the code file.

Witness chain per run: hook H3 trace (one record per emitted / reserved / retracted chunk: file, line, segment,
granularity, load address, phase, bytes as written) == code file (independent reader) - this equality is itself
asserted - and then every renderer is compared with the trace: listing code lines (line number, address = load
address + phase, bytes grouped by the listing granularity, continuation lines) in the selected radix; MAP
line:address entries per segment and file; symbol values in listing table, MAP symbol section and share file.
"""
import itertools, os, re
from .. import core, corpus
from ..fmt import pfile

ID = 'C19'
LEVEL = 'model_checking'
VARIANTS = ['plain']
CHUNK = 2
ENGINE = 'product-enumerator'
TECHNIQUE = 'exhaustive product of sources x list radix x share/debug formats; listing, MAP and share file parsed and compared with a hook trace that is itself cross-checked against the code file'
LEVEL_TEXT = ('Every golden source and 6 generated programs (macros, includes, several segments, PHASE, padding, long data lines, word-granular code) '
              'x list radix {16, 2, 8, 10, 36} (thorough: 2..36) x share format {-c, -p, -a} x {MAP} is assembled with the chunk-trace hook; the '
              'trace must reproduce the code file, every listing code line must show the address (load address + phase) and the bytes of the '
              'chunk emitted for that source line, every MAP line:address entry must name a chunk start in that segment and file, and symbol '
              'values must agree between listing table, MAP symbol section and share file.'
              ' Share files are also written with -h (lower-case hexadecimal); every value of the assembler-format file must be a number in the target\'s syntax.'
              ' One generated source defines 22 float symbols; the symbol table must show digits of their values.'
              " Added in the last round: every symbol of the listing's table must be in the MAP file (section NOTHING)."
              ' Shared string symbols whose text contains quotes, apostrophes and backslashes are read back from each share format by that format\'s rules.')
LEVEL_NOTE = ('Trusted: hook H3 (guarded by FLAMEWING_ASL_RELEASES_VERIF) as neutral witness, cross-checked against the code file in every run; '
              'listing/MAP/share parsers written from the observed layouts. Sources using retraction (parallel instructions merged into the previous '
              'line) are checked for trace==code file and MAP only.')
RULE = 'source x configuration; non-trivial = listing carries at least one code line'
BOUNDS = {'quick': 'radix {16,8,2,36} x share {c,p,a} on all sources (radix other than 16 on generated + 40 corpus sources)', 'thorough': 'radix 2..36 on all sources'}
ASSUMPTIONS = ['a listing unit wider than one byte is the little- or big-endian value of its bytes, consistently within one source']

FLOATS = ['0.1', '2.5', '1.0e300', '1.5e-300', '0.000001', '1.0e15', '1.0e16', '0.33333333333333331', '123456789.12345679', '1.2345678901234567e-5',
          '1.2345678901234567e20', '0.00012345678901234501', '123456789012345.59', '123456789012345678.0', '1.7976931348623157e308', '2.2250738585072014e-308',
          '9.8765432109876543e-100', '7.7777777777777777e77', '-6.6666666666666666e-66', '5.5555555555555558', '99999999999999.984', '0.99999999999999989']
GEN = {
    'g_macinc': ('\tcpu z80\nm\tmacro x\n\tld a,x\n\tdb x,x,x,x,x,x,x,x,x\n\tendm\n\torg 100h\n\tm 1\n\tinclude "i2.inc"\n\tphase 8000h\nl1:\tjp l1\n\tdephase\n\trept 2\n\tnop\n\tendm\n'
                 '\tdb 1,2,3,4,5,6,7,8,9,10\nval\tequ 1234h\nhi\tequ 0c0deh\nhb\tequ 0a0h\n\tshared val,l1,hi,hb\n', {'i2.inc': '\tnop\n\tm 2\n'}),
    'g_segs': ('\tcpu 8051\n\torg 30h\nstart:\tmov a,#1\n\tsegment data\n\torg 40h\nbuf:\tdb ?\n\tsegment xdata\n\torg 1000h\nxb:\tdb 1,2,3\n\tsegment code\n\tljmp start\n\tshared start,buf,xb\n'
               'bi\tbit 50\n\tjnb bi,$\n\tsegment bitdata\n\torg 51\nb2:\tdb ?\n\tsegment code\n', {}),
    'g_pic': ('\tcpu 16c84\n\torg 10\nl:\tmovlw 5\n\tdata 1,2,3,4,5,6,7,8,9\n\tgoto l\ncnt\tequ 77\n\tshared cnt,l\n', {}),
    'g_pad': ('\tcpu 68000\n\torg $1000\n\tdc.b 1\nw:\tdc.w $1234\n\tdc.b 1,2,3\nl:\tdc.l $11223344,w\n\tmove.l #l,d0\nhi\tequ $c0de\n\tshared w,l,hi\n', {}),
    'g_phase2': ('\tcpu z80\n\torg 100h\n\tdb 1\n\tphase 8000h\np1:\tdb 2,3\n\tphase 9000h\np2:\tdb 4\n\tdephase\np3:\tdb 5\n\tdephase\np4:\tdb 6\n\tshared p1,p2,p3,p4\n', {}),
    # statements that put an annotation (=value, =>TRUE) into the code column, partly on lines that are not listed, in front of code lines
    'g_listctl': ('\tcpu z80\n\torg 100h\nm\tmacro\nv\tset 1\n\tendm\n\tmacexp off\n\tm\n\tld a,5\n\tmacexp on\n\tm\n\tld b,6\n\tlisting purecode\nf\tequ 1\n\tif f\n\tld c,7\n\tendif\n'
                  '\tif 0\n\tnop\n\tendif\n\tld d,8\n\tlisting noskipped\n\tif 0\n\tnop\n\telse\n\tld e,9\n\tendif\n\tlisting on\nw\tequ 1234h\n\tld h,10\n\tshared w\n', {}),
    # float symbols: the symbol table must show the value, to the digits it prints
    'g_floats': ('\tcpu 8086\n' + ''.join('f%d\tequ %s\n' % (i, v) for i, v in enumerate(FLOATS)) + '\tdb 1\n', {}),
    # every emitting line lays down its own line number (include file: 100 + line): what a MAP entry calls line n holds the byte n
    'g_lineno': ('\tcpu 6502\n\torg $1000\n\tbyt 3\n\trept 2\n\tinclude "ln.inc"\n\tbyt 6\n\tendm\n\tbyt 8\n\tirp q,1,2\n\tinclude "ln.inc"\n\tendm\n\tbyt 12\n\tirpc c,"ab"\n\tinclude "ln.inc"\n\tbyt 15\n\tendm\n\tbyt 17\n\tbyt 18\n\twhile 0\n\tendm\n\tbyt 21\n\tinclude "ln.inc"\n\tbyt 23\n', {'ln.inc': '\tbyt 101\n\tbyt 102\n'}),
    # string symbols whose text contains the delimiters and the escape character of the share formats
    'g_sharestr': ('\tcpu 8080\ns1\tequ "a\\"b"\ns2\tequ "x\\\\y"\ns3\tequ "it\'s"\ns4\tequ "plain"\ns5\tequ "\\""\ns6\tequ "\\\\"\nn1\tequ 77\n\tdb s1,s2,s3,s4,s5,s6,n1\n\tshared s1,s2,s3,s4,s5,s6,n1\n', {}),
    'g_c30': ('\tcpu 320c30\n\torg 100h\nx:\tword 1,2,3\n\tldi r0,r1\n\tshared x\n', {}),
}
SHARE = {'c': ['-c'], 'p': ['-p'], 'a': ['-a'], 'ch': ['-c', '-h'], 'ph': ['-p', '-h'], 'ah': ['-a', '-h']}      # -h: hexadecimal digits in lower case


def sources():
    return corpus.tests() + sorted(GEN)


SHARESTR = {'S1': 'a"b', 'S2': 'x\\y', 'S3': "it's", 'S4': 'plain', 'S5': '"', 'S6': '\\'}


def subspaces(tier):
    q = tier == 'quick'
    subs = []
    ts = sources()

    def cfgs():
        for t in ts:
            for sh in ('c', 'p', 'a', 'ch', 'ph', 'ah'):
                yield {'t': t, 'radix': 16, 'share': sh}
    subs.append(('radix16 x share formats', cfgs()))
    rads = [2, 8, 10, 36] if q else [r for r in range(2, 37) if r != 16]
    sub = sorted(GEN) + (corpus.tests()[::5] if q else corpus.tests())

    def rad():
        for t in sub:
            for r in rads:
                yield {'t': t, 'radix': r, 'share': 'c'}
    subs.append(('list radix %s' % ('2..36' if not q else rads), rad()))
    subs.append(('noice-debug-info', ({'t': t, 'radix': 16, 'share': 'c', 'dbg': 'NOICE'} for t in sorted(GEN) + (corpus.tests()[::3] if q else corpus.tests()))))
    return subs


def describe(case):
    return '%s -LISTRADIX %d share -%s%s' % (case['t'], case['radix'], case['share'], ' -g ' + case['dbg'] if case.get('dbg') else '')


def parse_int(s, radix):
    try:
        return int(s, radix)
    except ValueError:
        return None


LST = re.compile(r'^(?:\(\s*\d+\))?\s*(\d+)/\s*([0-9A-Za-z]+) ([:R]) (.*)$')
CONTL = re.compile(r'^\s{8,}([0-9A-Za-z]+) ([:R]) (.*)$')


def parse_listing(text, radix):
    """list of (lineno, addrtext, [unit texts]) for code-bearing entries, continuation lines merged"""
    out = []
    for l in text.split('\n'):
        if l.startswith('\f') or ' AS V' in l[:12]:
            continue
        m = LST.match(l)
        if m:
            rest = m.group(4)
            if rest.startswith('(MACRO') or rest.startswith('<padding>') and False:
                continue
            units = unit_tokens(rest, radix)
            out.append([int(m.group(1)), m.group(2), units, rest, [], l.lstrip().startswith('(')])
            continue
        m = CONTL.match(l)
        if m and out:
            out[-1][4].append((m.group(1), len(out[-1][2])))     # continuation line: its address text, units before it
            out[-1][2] += unit_tokens(m.group(3), radix)
    return out


def unit_tokens(rest, radix=16):
    """leading code units of a listing line: blank-separated tokens that are numbers of a full unit width in the list radix"""
    wd = {width(k, radix): k for k in (4, 2, 1)}
    ok = set(wd)
    out = []
    for tok in re.split(r'( +|\t)', rest):
        if tok == '' or tok.isspace():
            if '\t' in tok or len(tok) > 1:
                break
            continue
        # a code unit is a number of full unit width whose value fits the unit (`NONE`, the annotation of MACEXP_OVR, has the
        # width of a word in radix 29 and only digits of that radix, but not a 16-bit value)
        if len(tok) in ok and parse_int(tok, radix) is not None and parse_int(tok, radix) < 256 ** wd[len(tok)]:
            out.append(tok)
        else:
            break
    return out


DIG = '0123456789ABCDEFGHIJKLMNOPQRSTUVWXYZ'


def width(nbytes, radix):
    v = (1 << (8 * nbytes)) - 1
    n = 0
    while v:
        v //= radix
        n += 1
    return n


def check_noice(case, t, chunks, rstarts, ends, retract, lst, desc):
    """NoICE command file: DEFINE name value / FILE name start / LINE n offset... / ENDFILE end, for the code segment"""
    noi = (core.get('src/' + t + '.noi') or b'').decode('latin-1')
    if not noi:
        return core.R(True, 'no-noice-file', nontrivial=False)
    starts = set((os.path.basename(c['file']), c['line'], c['pc']) for c in chunks if c['seg'] == 1) | set((f, ln, pc) for sg, f, ln, pc in rstarts if sg == 1)
    # (statements that emit nothing - an ALIGN with nothing to skip - are booked at the current address: start or end of a chunk)
    addrs = set((x[0], x[2]) for x in starts) | set((os.path.basename(c['file']), c['pc'] + len(c['data']) // max(c['gran'], 1)) for c in chunks if c['seg'] == 1) \
        | set((f, a) for sg, f, a in ends if sg == 1)
    cur = None
    nline = 0
    for l in noi.split('\n'):
        f = l.split()
        if not f:
            continue
        if f[0] == 'FILE':
            if cur is not None:
                return core.R(False, 'noice', 'noice/file-inside-file', 'FILE %s opened before the previous block was closed on %s' % (f[1], desc))
            cur = (os.path.basename(f[1]), int(f[2], 16), [])
        elif f[0] == 'LINE':
            if cur is None:
                return core.R(False, 'noice', 'noice/line-outside-file', 'LINE %s %s stands in no FILE block on %s' % (f[1], f[2], desc))
            n, a = int(f[1]), cur[1] + int(f[2], 16)
            nline += 1
            cur[2].append(a)
            if not retract and (cur[0], n, a) not in starts and (cur[0], a) not in addrs:
                return core.R(False, 'noice', 'noice/line-address', 'LINE %d at %x of %s names no code that line emitted there on %s' % (n, a, cur[0], desc))
        elif f[0] == 'ENDFILE':
            if cur is None:
                return core.R(False, 'noice', 'noice/endfile-without-file', 'ENDFILE without FILE on ' + desc)
            end = int(f[-1], 16)
            if cur[2] and not (cur[1] <= min(cur[2]) and max(cur[2]) <= end):
                return core.R(False, 'noice', 'noice/file-range', 'block of %s says %x..%x but its lines lie at %x..%x on %s' % (cur[0], cur[1], end, min(cur[2]), max(cur[2]), desc))
            cur = None
    if cur is not None:
        return core.R(False, 'noice', 'noice/unclosed-file', 'FILE block of %s is not closed on %s' % (cur[0], desc))
    # symbol values: DEFINE against the listing's symbol table
    symlst = {}
    for m in re.finditer(r'[ *]([A-Za-z_.$][\w.$]*) :\s+([0-9A-Za-z]+) [-CDIXYBPROE] \|', lst):
        v = parse_int(m.group(2), 16)
        if v is not None:
            symlst[m.group(1).upper()] = v
    ndef = {}
    for m in re.finditer(r'^DEFINE (\S+) 0x', noi, re.M):
        ndef[m.group(1).upper()] = ndef.get(m.group(1).upper(), 0) + 1
    for m in re.finditer(r'^DEFINE (\S+) 0x([0-9A-Fa-f]+)', noi, re.M):
        nm = m.group(1).upper()
        if ndef[nm] > 1:
            continue        # the same name in several sections (the file has one DEFINE per section): compared where the name is unique
        if nm in symlst and (symlst[nm] & 0xffffffff) != (int(m.group(2), 16) & 0xffffffff):
            return core.R(False, 'noice', 'noice/define-value', 'DEFINE %s %s, listing says %x on %s' % (m.group(1), m.group(2), symlst[nm], desc))
    return core.R(True, 'noice-consistent', nontrivial=nline > 0, states=['noi:%s' % t], transitions=1)


def evaluate(case):
    t = case['t']
    core.fresh()
    d = os.path.join(core.workdir(), 'src')
    os.makedirs(d, exist_ok=True)
    if t in GEN:
        core.put('src/' + t + '.asm', GEN[t][0])
        for n, c in GEN[t][1].items():
            core.put('src/' + n, c)
        fl = []
    else:
        corpus.prep(t, d)
        fl = [x for x in corpus.flags(t) if x not in ('-c', '-A')]
    tr = os.path.join(core.workdir(), 'chunks.txt')
    opts = fl + ['-q', '-i', corpus.incdir(), '-L', '-g', case.get('dbg', 'MAP')] + SHARE[case['share']] + (['-LISTRADIX', str(case['radix'])] if case['radix'] != 16 else [])
    o = core.run('asl', opts + [t + '.asm'], cwd=d, env={'ASL_VERIF_CHUNKS': tr}, timeout=120)
    desc = describe(case)
    ck = core.crashkind(o)
    if ck:
        return core.R(False, ck, 'crash/%s' % ck, '%s on %s' % (ck, desc))
    p = core.get('src/' + t + '.p')
    if o.rc != 0 or p is None:
        return core.R(False, 'rejected', 'rejected/' + t, 'rc=%s %s on %s' % (o.rc, (o.out + o.err)[-160:].decode('latin-1'), desc))
    # ---- trace of the final pass
    chunks = []
    try:
        lines = open(tr).read().split('\n')
    except OSError:
        lines = []
    recs = [l.split(' ') for l in lines if l]
    if not recs:
        return core.R(False, 'no-trace', 'harness/no-trace', 'hook trace missing on ' + desc)
    last = max(int(r[1]) for r in recs)
    retract = False
    rstarts = set()
    ends = set()
    for r in recs:
        if int(r[1]) != last:
            continue
        kind, fn, ln, seg, gran, lgran, pc, ph = r[0], r[2], int(r[3]), int(r[4]), int(r[5]), int(r[6]), int(r[7], 16), int(r[8], 16)
        if kind == 'R':
            rstarts.add((seg, os.path.basename(fn), ln, pc))
            ends.add((seg, os.path.basename(fn), pc + int(r[9]) // max(gran, 1)))
        if kind == 'C':
            chunks.append(dict(file=os.path.basename(fn), line=ln, seg=seg, gran=gran, lgran=lgran, pc=pc, ph=ph, data=bytes.fromhex(r[9])))
        elif kind == 'X':
            retract = True
            n = int(r[9])
            while n and chunks:
                c = chunks[-1]
                k = min(n, len(c['data']))
                c['data'] = c['data'][:len(c['data']) - k]
                n -= k
                if not c['data']:
                    chunks.pop()
    # (A) trace == code file
    want = {}
    for c in chunks:
        for i, b in enumerate(c['data']):
            want[(c['seg'], c['pc'] * c['gran'] + i)] = b
    got = {}
    for r in pfile.data_records(pfile.read(p)):
        for i, b in enumerate(r.data):
            got[(r.seg, r.start * r.gran + i)] = b
    if got != want:
        bad = [k for k in sorted(set(got) | set(want)) if got.get(k) != want.get(k)][:3]
        return core.R(False, 'trace-vs-codefile', 'trace/codefile', 'hook trace and code file differ at %s on %s' % (bad, desc))
    # (B) listing
    radix = case['radix']
    lst = (core.get('src/' + t + '.lst') or b'').decode('latin-1')
    allents = parse_listing(lst, radix)
    ents = [e for e in allents if e[2]]
    ncode = 0
    if not retract:
        # a listed line whose code column holds an annotation (=value, =>TRUE...) although code was emitted for exactly that line
        # and address: the annotation belongs to another statement
        at = {}
        for c in chunks:
            if c['data']:
                at.setdefault((c['line'], c['pc'] + c['ph']), c)
        nlisted = {}
        for e in allents:
            if not e[5]:
                nlisted[e[0]] = nlisted.get(e[0], 0) + 1
        for ln, atext, units, rest, conts, inc in allents:
            # (lines of the main file only - include files restart the numbering - and not the lines of a macro expansion,
            # which all carry the number of the call)
            if not units and rest.startswith('=') and not inc and nlisted[ln] == 1:
                c = at.get((ln, parse_int(atext, radix)))
                if c is not None and os.path.basename(c['file']) == t + '.asm':
                    return core.R(False, 'listing-bytes', 'listing/annotation-instead-of-code', 'listing line %d shows "%s" where the bytes %s were emitted on %s' % (ln, rest.split()[0], c['data'].hex(), desc))
        ci = 0
        orient = None
        for ln, atext, units, rest, conts, _inc in ents:
            a = parse_int(atext, radix)
            # lines may legitimately be missing from the listing (LISTING OFF, suppressed macro expansions): search forward
            # for the chunk this entry talks about - same source line number and same address
            cj = ci
            while cj < len(chunks) and not (chunks[cj]['line'] == ln and chunks[cj]['pc'] + chunks[cj]['ph'] == a):
                cj += 1
            if cj >= len(chunks):
                same_line = [c for c in chunks[ci:] if c['line'] == ln]
                if same_line:
                    c = same_line[0]
                    return core.R(False, 'listing-address', 'listing/address/%s' % ('radix' if parse_int(atext, 16) == c['pc'] + c['ph'] and radix != 16 else 'value'),
                                  'listing line %d shows address %s, the chunk emitted for that line is at load %x + phase %x on %s' % (ln, atext, c['pc'], c['ph'], desc))
                return core.R(False, 'listing-extra', 'listing/extra-code-line', 'listing shows code "%s" at %s on line %d that was not emitted there on %s' % (' '.join(units), atext, ln, desc))
            ci = cj
            c = chunks[ci]
            wmap = {width(k, radix): k for k in (4, 2, 1)}
            sizes = [wmap.get(len(u)) for u in units]
            if None in sizes:
                return core.R(False, 'listing-digits', 'listing/unit-width', 'listing line %d: unit widths of "%s" fit no byte/word/long in radix %d on %s' % (ln, ' '.join(units), radix, desc))
            nbytes = sum(sizes)
            data = b''
            cj = ci
            while len(data) < nbytes and cj < len(chunks) and chunks[cj]['line'] == c['line']:
                data += chunks[cj]['data']
                cj += 1
            vals = [parse_int(u, radix) for u in units]
            if None in vals:
                return core.R(False, 'listing-digits', 'listing/digits', 'listing line %d code "%s" is not a number in radix %d on %s' % (ln, ' '.join(units), radix, desc))
            if len(data) < nbytes:
                return core.R(False, 'listing-bytes', 'listing/more-than-emitted', 'listing line %d shows %d bytes, %d were emitted on %s' % (ln, nbytes, len(data), desc))
            offs = [sum(sizes[:i]) for i in range(len(sizes))]
            ok_le = all(int.from_bytes(data[o:o + n], 'little') == v for o, n, v in zip(offs, sizes, vals))
            ok_be = all(int.from_bytes(data[o:o + n], 'big') == v for o, n, v in zip(offs, sizes, vals))
            if not (ok_le or ok_be) or (orient == 'le' and not ok_le) or (orient == 'be' and not ok_be):
                return core.R(False, 'listing-bytes', 'listing/bytes', 'listing line %d shows "%s", emitted bytes %s on %s' % (ln, ' '.join(units), data[:nbytes].hex(), desc))
            if ok_le != ok_be:
                orient = 'le' if ok_le else 'be'
            # continuation lines carry their own address: start + what the previous lines of the statement hold
            for ctext, nbefore in conts:
                want_a = a + sum(sizes[:nbefore]) // max(c['gran'], 1)
                if parse_int(ctext, radix) != want_a:
                    return core.R(False, 'listing-address', 'listing/continuation-address', 'listing line %d: continuation line shows address %s, the bytes it lists are at %x on %s' % (ln, ctext, want_a, desc))
            # advance over the chunks of this statement; the listing may show only the first part of long data (rest on continuation lines)
            ci = cj if len(data) == nbytes else cj
            ncode += 1
    if case.get('dbg') == 'NOICE':
        return check_noice(case, t, chunks, rstarts, ends, retract, lst, desc)
    # (C) MAP line:address entries
    mp = (core.get('src/' + t + '.map') or b'').decode('latin-1')
    seg = None
    fn = None
    SEGID = {v: k for k, v in pfile.SEGNAMES.items()}
    SEGID['BITDATA'] = 6
    starts = set((c['seg'], c['file'], c['line'], c['pc']) for c in chunks) | rstarts
    starts3 = set((x[0], x[1], x[3]) for x in starts) | ends | set((c['seg'], c['file'], c['pc'] + len(c['data']) // max(c['gran'], 1)) for c in chunks)
    nmap = 0
    for l in mp.split('\n'):
        m = re.match(r'^Segment (\S+)', l)
        if m:
            seg = SEGID.get(m.group(1))
            continue
        m = re.match(r'^File (.*)$', l)
        if m:
            fn = os.path.basename(m.group(1).strip())
            continue
        if l.startswith('Symbols in Segment') or l.startswith('Info for'):
            seg = None
            continue
        if seg is not None and fn is not None:
            for mm in re.finditer(r'(\d+):([0-9A-Fa-f]{8})', l):
                nmap += 1
                key = (seg, fn, int(mm.group(1)), int(mm.group(2), 16))
                zero_len = (key[0], key[1], key[3]) in starts3   # e.g. ALIGN that had nothing to skip
                if key not in starts and not zero_len and not retract:
                    phased = [c for c in chunks if (c['seg'], c['file'], c['line'], c['pc'] + c['ph']) == key]
                    return core.R(False, 'map-entry', 'map/line-address/%s' % ('execution-address' if phased else 'no-such-chunk'),
                                  'MAP entry %d:%08X (segment %s, file %s) names no chunk start on %s' % (key[2], key[3], seg, fn, desc))
    if t == 'g_lineno':
        seg = fn = None
        mem = {}
        for c in chunks:
            if c['seg'] == 1:
                for i, b in enumerate(c['data']):
                    mem[c['pc'] + i] = b
        for l in mp.split('\n'):
            m = re.match(r'^Segment (\S+)', l)
            if m:
                seg = m.group(1)
                continue
            m = re.match(r'^File (.*)$', l)
            if m:
                fn = os.path.basename(m.group(1).strip())
                continue
            if l.startswith('Symbols in Segment'):
                break
            if seg == 'CODE' and fn:
                for mm in re.finditer(r'(\d+):([0-9A-Fa-f]{8})', l):
                    ln, ad = int(mm.group(1)), int(mm.group(2), 16)
                    want = ln + (100 if fn == 'ln.inc' else 0)
                    if mem.get(ad) != want:
                        return core.R(False, 'map-entry', 'map/line-number-of-another-line', 'MAP entry %d:%08X of %s: the byte there is %s, line %d lays down %d on %s' % (ln, ad, fn, mem.get(ad), ln, want, desc))
    # (D) symbol values: listing table vs MAP symbol section vs share file
    symmap = {}
    for m in re.finditer(r'^(\S+)\s+Int\s+([0-9A-Fa-f]+)\s', mp, re.M):
        symmap[m.group(1).upper()] = int(m.group(2), 16)
    symlst = {}
    for m in re.finditer(r'[ *]([A-Za-z_.$][\w.$]*) :\s+([0-9A-Za-z]+) [-CDIXYBPROE] \|', lst):
        v = parse_int(m.group(2), radix)
        if v is not None:
            symlst[m.group(1).upper()] = v
    if t == 'g_floats':
        # the table prints up to 14 significant digits (fewer with a long exponent): what it prints must be digits of the value
        from decimal import Decimal
        seen = 0
        for m in re.finditer(r'[ *](F\d+) :\s+(-?[0-9.]+(?:[Ee]-?[0-9]+)?) - \|', lst):
            true = Decimal(float(FLOATS[int(m.group(1)[1:])]))
            shown = Decimal(m.group(2))
            mant = m.group(2).upper().split('E')[0].replace('-', '')
            digits = mant.replace('.', '').lstrip('0')
            if 'E' not in m.group(2).upper() and '.' not in mant:
                digits = digits.rstrip('0')       # (an integer written out: the zeros at its end may be fill)
            tol = Decimal(10) ** (1 - len(digits)) if len(digits) >= 12 else Decimal('2e-15')
            seen += 1
            if abs(shown - true) > tol * abs(true):
                return core.R(False, 'float-symbol', 'symbols/float-digits', 'symbol %s = %s is listed as %s: wrong in the digits shown, on %s' % (m.group(1), FLOATS[int(m.group(1)[1:])], m.group(2), desc))
        if seen != len(FLOATS):
            return core.R(False, 'float-symbol', 'symbols/float-missing', '%d of %d float symbols found in the symbol table on %s' % (seen, len(FLOATS), desc))
    # the MAP symbol section has a part for every segment and one (NOTHING) for the symbols that belong to none: a symbol the
    # listing's table shows with an integer value is in the MAP as well
    if symmap or symlst:
        anytype = set(m.group(1).upper() for m in re.finditer(r'^(\S+)\s+(?:Int|Float|String)\s', mp, re.M))
        gone = sorted(x for x in symlst if x not in anytype and not re.search(r'\[', x))
        if mp and gone and not retract:
            return core.R(False, 'symbol-missing', 'symbols/listed-but-not-in-map', 'symbols %s are in the listing\'s symbol table but not in the MAP file on %s' % (gone[:5], desc))
    both = set(symmap) & set(symlst)
    for s in sorted(both):
        if symmap[s] != symlst[s] and (symmap[s] - symlst[s]) % (1 << 64) != 0 and (symmap[s] & 0xffffffff) != (symlst[s] & 0xffffffff):
            return core.R(False, 'symbol-value', 'symbols/listing-vs-map', 'symbol %s: listing %x, MAP %x on %s' % (s, symlst[s], symmap[s], desc))
    sh = (core.get('src/' + t + '.h') or core.get('src/' + t + '.inc') or core.get('src/' + t + '.pas') or b'').decode('latin-1')
    nshare = 0
    if 'a' in case['share']:
        # the assembler-format file is meant to be INCLUDEd: every value must be a number in the target's own syntax (a hexadecimal
        # constant with H suffix starts with a digit, otherwise it is a symbol name)
        for m in re.finditer(r'^(\w+)\s+(?:equ|=|set)\s+(\S+)', sh, re.M | re.I):
            if t == 'g_sharestr' and m.group(2).startswith('"'):
                continue
            if not re.fullmatch(r'\$[0-9A-Fa-f]+|0x[0-9A-Fa-f]+|[0-9][0-9A-Fa-f]*[hH]|\d+|[0-7]+[oOqQ]|[01]+[bB]|%[01]+|@[0-7]+', m.group(2)):
                return core.R(False, 'share-value', 'symbols/share-file-not-a-number', 'share file gives %s the value "%s", which is not a number on %s' % (m.group(1), m.group(2), desc))
    for m in re.finditer(r'(?:#define\s+(\w+)\s+(0x[0-9A-Fa-f]+|\d+)|^(\w+)\s*=\s*(\$[0-9A-Fa-f]+|\d+);|^(\w+)\s+(?:equ|=|set)\s+(\$[0-9A-Fa-f]+|0x[0-9A-Fa-f]+|[0-9A-Fa-f]+h|\d+))', sh, re.M | re.I):
        name = (m.group(1) or m.group(3) or m.group(5)).upper()
        txt = m.group(2) or m.group(4) or m.group(6)
        if txt.startswith('$'):
            v = int(txt[1:], 16)
        elif txt.lower().startswith('0x'):
            v = int(txt, 16)
        elif txt.lower().endswith('h'):
            v = int(txt[:-1], 16)
        else:
            v = int(txt)
        nshare += 1
        ref = symmap.get(name, symlst.get(name))
        if ref is not None and (ref & 0xffffffff) != (v & 0xffffffff):
            return core.R(False, 'share-value', 'symbols/share-file', 'symbol %s: share file %x, symbol table %x on %s' % (name, v, ref, desc))
    if t == 'g_sharestr':
        # a shared string is written the way the reading language spells it: delimiter and escape character inside the text
        for name, text in SHARESTR.items():
            if 'p' in case['share']:
                m = re.search(r"(?mi)^%s\s*=\s*'((?:[^']|'')*)';\s*$" % name, sh)
                got = m.group(1).replace("''", "'") if m else None
            else:
                m = re.search(r'(?mi)^(?:#define\s+%s\s+|%s\s+equ\s+)"((?:[^"\\]|\\.)*)"\s*$' % (name, name), sh)
                got = re.sub(r'\\(.)', r'\1', m.group(1)) if m else None
            if got != text:
                line = [l for l in sh.split('\n') if re.match(r'(?i)(#define\s+)?%s\b' % name, l)]
                return core.R(False, 'share-string', 'symbols/share-file-string', 'string symbol %s = %r is written as %r (read back: %r) on %s' % (name, text, line[:1], got, desc))
            nshare += 1
    return core.R(True, 'consistent' if not retract else 'consistent(retractions: listing skipped)', nontrivial=ncode > 0 or nmap > 0,
                  states=['%s/%d' % (t, radix)], transitions=1)
