import itertools, os, subprocess, sys, tempfile, shutil, collections, struct, copy
from multiprocessing import Pool
sys.path.insert(0,'/tmp/w/s')
from pdump import parse
ASL=os.environ.get('ASLBIN','/repo/_build/asl')
# 8051 segments: code(1) init 0, data(2) init 0x30, xdata(4) init 0
SEGINIT={1:0,2:0x30,4:0}
SEGNAME={1:'code',2:'data',4:'xdata'}
OPS=['ORG10','ORG41','RORG3','RORGm1','ALIGN2','ALIGN4','ALIGN3','DS1','DS3','DB1','DB2','SEGc','SEGd','SEGx','PH60','PHrel','DEPH','SAVE','REST']
SRC={'ORG10':'org 10h','ORG41':'org 41h','RORG3':'rorg 3','RORGm1':'rorg -1','ALIGN2':'align 2','ALIGN4':'align 4','ALIGN3':'align 3','DS1':'ds 1','DS3':'ds 3','SEGc':'segment code','SEGd':'segment data','SEGx':'segment xdata','PH60':'phase 60h','PHrel':'phase $+8','DEPH':'dephase','SAVE':'save','REST':'restore'}
class St:
    def __init__(s):
        s.pc={1:0}; s.used={1}; s.ph={1:0,2:0,4:0}; s.phst={1:[],2:[],4:[]}; s.seg=1; s.save=[]; s.err=False
    def epc(s): return s.pc[s.seg]+s.ph[s.seg]
def step(s,op,k,markers):
    seg=s.seg
    if op.startswith('ORG'):
        v={'ORG10':0x10,'ORG41':0x41}[op]; s.pc[seg]=v-s.ph[seg]
    elif op=='RORG3': s.pc[seg]+=3
    elif op=='RORGm1': s.pc[seg]-=1
    elif op.startswith('ALIGN'):
        n=int(op[5:]); e=s.epc(); ne=(e+n-1)//n*n; s.pc[seg]+=ne-e
    elif op in('DS1','DS3'): s.pc[seg]+=int(op[2:])
    elif op in('DB1','DB2'):
        n=int(op[2:])
        for i in range(n): markers.append((seg,s.pc[seg]+i,(0x10*k+i)&0xff))
        s.pc[seg]+=n
    elif op.startswith('SEG'):
        ns={'c':1,'d':2,'x':4}[op[3]]
        if ns not in s.used: s.pc[ns]=SEGINIT[ns]; s.used.add(ns)
        s.seg=ns
    elif op=='PH60':
        s.phst[seg].append(s.ph[seg]); s.ph[seg]=0x60-s.pc[seg]
    elif op=='PHrel':
        s.phst[seg].append(s.ph[seg]); s.ph[seg]=(s.epc()+8)-s.pc[seg]
    elif op=='DEPH':
        s.ph[seg]=s.phst[seg].pop() if s.phst[seg] else 0
    elif op=='SAVE': s.save.append(seg)
    elif op=='REST':
        if not s.save: s.err=True
        else: s.seg=s.save.pop()
def render(seq):
    out=['\tcpu 8051']
    for k,op in enumerate(seq):
        out.append('L%d:'%k)
        if op.startswith('DB'):
            n=int(op[2:]); out.append('\tdb '+','.join(str((0x10*k+i)&0xff) for i in range(n)))
        else: out.append('\t'+SRC[op])
    out.append('L%d:'%len(seq))
    out.append('\tsegment code'); out.append('\tdephase');out.append('\tdephase');out.append('\tdephase'); out.append('\torg 1000h')
    out.append('\tdw '+','.join('L%d'%k for k in range(len(seq)+1)))
    return '\n'.join(out)+'\n'
def model(seq):
    s=St(); labels=[]; markers=[]
    for k,op in enumerate(seq):
        labels.append(s.epc()&0xffffffff)
        step(s,op,k,markers)
    labels.append(s.epc()&0xffffffff)
    if s.save: s.err=True
    return s,labels,markers
base=tempfile.mkdtemp(dir='/dev/shm')
LIM={1:0xffff,2:0xff,4:0xffff}
def run(seq):
    s,labels,markers=model(seq)
    # skip programs leaving valid ranges (negative pc, beyond limits): out of the model's domain
    d=os.path.join(base,str(os.getpid())); os.makedirs(d,exist_ok=True)
    if os.path.exists(d+'/a.p'): os.unlink(d+'/a.p')
    open(d+'/a.asm','w').write(render(seq))
    r=subprocess.run([ASL,'-q','a.asm'],cwd=d,capture_output=True,timeout=5,env={'LC_ALL':'C'})
    if r.returncode<0: return seq,'SIGNAL'
    if s.err:
        return seq,('ok-err' if r.returncode==2 else 'model-err but rc %d'%r.returncode)
    if r.returncode!=0: return seq,'rc%d %s'%(r.returncode,r.stderr.decode().split('\n')[0].split('error:')[-1].strip())
    recs=parse(open(d+'/a.p','rb').read())
    got={}
    tab=None
    for x in recs:
        if x[0]!='data': continue
        if x[3]==1 and x[5]==0x1000: tab=x[7]; continue
        for i,b in enumerate(x[7]): got[(x[3],x[5]+i)]=b
    want={(sg,a):b for sg,a,b in markers}
    if got!=want: return seq,'MARKERS got %s want %s'%(sorted(got.items()),sorted(want.items()))
    vals=list(struct.unpack('<%dH'%(len(tab)//2),tab))
    if vals!=[l&0xffff for l in labels]: return seq,'LABELS got %s want %s'%([hex(v) for v in vals],[hex(l&0xffff) for l in labels])
    return seq,'ok'
if __name__=='__main__':
    n=int(sys.argv[1])
    seqs=[s for k in range(1,n+1) for s in itertools.product(OPS,repeat=k)]
    print(len(seqs),'programs')
    with Pool(16) as p: rs=p.map(run,seqs,chunksize=50)
    c=collections.Counter(r.split(' got')[0][:50] for _,r in rs)
    print(c.most_common(20))
    shown=collections.Counter()
    for s,r in rs:
        k=r.split(' got')[0][:50]
        if not r.startswith('ok') and shown[k]<4: shown[k]+=1; print(r[:230],'|',' '.join(s))
    shutil.rmtree(base)
