"""C07 - PBIND conserves records and PLIST reports them truthfully.

History = sequence of 1..4 code files (from a pool covering every record kind, written by the independent writer)
bound by one PBIND call under a -f filter list.  Oracle: PBIND's output, read back by the independent reader, holds
exactly the filtered concatenation of the inputs' data and entry records, unchanged; PLIST on every input and on the
output prints one table line per data record with true family, segment, start, length and last address, and per-
segment totals equal to the sums.  Runs use a working directory WITHOUT the message files, with and without -q.
"""
import itertools, re
from .. import core
from ..fmt import pfile

ID = 'C07'
LEVEL = 'model_checking'
VARIANTS = ['plain']
CHUNK = 16
ENGINE = 'history-explorer'
TECHNIQUE = 'exhaustive sequences of pool code files x filter lists through the real pbind/plist, output re-read by an independent code-file reader'
LEVEL_TEXT = ('Every sequence of 1..2 (quick) / 1..3 (thorough; 4 for a reduced pool) files from a 16-file pool (short and long headers, all segments '
              'incl. EEDATA, granularities 1/2/4, entry records, zero-length and 65535-byte records, unknown families, short-form records of families '
              'whose granularity depends on the segment after a non-CODE record) under 7 filter lists (incl. duplicate ids, several -f options) is '
              'bound by the rebuilt pbind; the output must parse and equal the filtered concatenation record for record; plist\'s table and totals '
              'are compared field by field.'
              ' The pool includes granularity-1 code records of families whose default is 2 or 4; plist is also run over every pair and triple of a sub-pool in one invocation.'
              ' Added in the last round: ids taken off the filter list with +f.')
LEVEL_NOTE = 'Trusted: pfile reader/writer; plist table parsed with a regular expression from its column layout.'
RULE = 'file sequences x filters; non-trivial = >=2 data records involved'
BOUNDS = {'quick': 'sequences<=2', 'thorough': 'sequences<=3, and <=4 over an 8-file sub-pool'}
ASSUMPTIONS = ['entry records are always copied by pbind (they carry no family)', 'last address = start + length/granularity - 1']

FAMNAME = {0x41: '8080/8085', 0x70: '16C8x', 0x3b: None, 0x76: None, 0x31: None, 0x51: None, 0x11: None, 0x1a: None}


def R(cpu, seg, gran, start, data, short=False):
    return dict(kind='data', cpu=cpu, seg=seg, gran=gran, start=start, data=data, short=short)


def E(v):
    return dict(kind='entry', entry=v)


POOL = {
    'short41': [R(0x41, 1, 1, 0x100, b'\x01\x02\x03', True)],
    'long41': [R(0x41, 1, 1, 0x100, b'\x01\x02\x03')],
    'data41': [R(0x41, 2, 1, 0x20, b'\x09')],
    'pic': [R(0x70, 1, 2, 0x10, b'\xff\x3f\x00\x00')],
    'picshort': [R(0x70, 1, 2, 0x10, b'\xff\x3f\x00\x00', True)],
    'gran4code41': [R(0x41, 1, 4, 0x10, b'\x01\x02\x03\x04')],
    'entry': [R(0x41, 1, 1, 0, b'\x00'), E(0x1234)],
    'zero': [R(0x41, 1, 1, 0x50, b''), R(0x41, 1, 1, 0x60, b'\x07')],
    'big': [R(0x41, 1, 1, 0, bytes(range(256)) * 255 + bytes(255))],
    'unk': [R(0x7e, 1, 4, 0, b'\x01\x02\x03\x04'), R(0x0f, 1, 1, 0, b'\x02')],
    'two': [R(0x41, 1, 1, 0, b'\x01'), R(0x70, 1, 2, 0, b'\x02\x03')],
    'avr3': [R(0x3b, 1, 2, 0x40, b'\x01\x02\x03\x04'), R(0x3b, 10, 1, 0, b'\x11'), R(0x3b, 1, 2, 0x44, b'\x05\x06', True)],
    'avrdata': [R(0x3b, 2, 1, 0x60, b'\x01'), R(0x3b, 1, 2, 0x10, b'\x07\x08', True)],
    'z80': [R(0x51, 1, 1, 0x8000, b'\xc9'), R(0x51, 7, 1, 0x10, b'\x00')],
    'mcs51': [R(0x31, 1, 1, 0, b'\x02\x00\x10'), R(0x31, 2, 1, 0x30, b'\x01'), R(0x31, 4, 1, 0, b'\x02'), R(0x31, 6, 1, 0x20, b'\x03')],
    'onlyentry': [E(0x10)],
    # granularity 1 in the code segment of families whose built-in default is 2 or 4 (AVR with byte-addressed code, ...)
    'avrgran1': [R(0x3b, 1, 1, 0x200, b'\x01\x02\x03\x04\x05\x06'), R(0x3b, 1, 2, 0x40, b'\x01\x02')],
    'c3xgran1': [R(0x76, 1, 1, 0x10, b'\x01\x02\x03'), R(0x70, 1, 1, 0x20, b'\x09\x08')],
    # family with 4 bytes per address: short header (granularity implied by the family) and an explicit granularity of 2
    'c3xshort': [R(0x76, 1, 4, 0x1000, bytes(range(16)), True), R(0x76, 1, 2, 0x40, b'\x01\x02\x03\x04')],
}
SUBPOOL = ['short41', 'data41', 'pic', 'entry', 'zero', 'unk', 'avr3', 'mcs51', 'avrgran1', 'c3xshort']
FILTERS = [None, ['0x41'], ['0x41,0x70'], ['0x12'], ['0x31,0x51,0x31'], ['0x3b', '0x41'], ['0x70,0x3b'],
           # ids taken off the list again with +f (a leading '+' marks such an argument): first, middle and last entry, all entries
           ['0x31,0x41', '+0x41'], ['0x41,0x31', '+0x41'], ['0x41,0x70,0x3b', '+0x70'], ['0x41', '+0x41'], ['0x3b,0x41,0x70,0x31', '+0x3b,0x70']]
SEGN = {1: 'CODE', 2: 'DATA', 3: 'IDATA', 4: 'XDATA', 5: 'YDATA', 6: 'BITDATA', 7: 'IO', 8: 'REG', 9: 'ROMDATA', 10: 'EEDATA'}


def filter_ids(flt):
    if flt is None:
        return None
    ids = set()
    for arg in flt:
        for x in arg.lstrip('+').split(','):
            if arg.startswith('+'):
                ids.discard(int(x, 16))
            else:
                ids.add(int(x, 16))     # listing an id twice is still "in the list"
    return ids or None          # (an empty list is no filter)


def subspaces(tier):
    q = tier == 'quick'
    names = sorted(POOL)

    def seqs(pool, n, quiets):
        for k in range(1, n + 1):
            for combo in itertools.product(pool, repeat=k):
                for fi in range(len(FILTERS)):
                    for qu in quiets:
                        yield {'files': list(combo), 'filter': fi, 'quiet': qu}
    subs = [('sequences<=%d' % (2 if q else 3), seqs(names, 2 if q else 3, (0, 1) if q else (1,)))]
    if not q:
        subs.append(('sequences<=2-verbose', seqs(names, 2, (0,))))
        subs.append(('sequences=4-subpool', ({'files': list(c), 'filter': fi, 'quiet': 1} for c in itertools.product(SUBPOOL, repeat=4) for fi in (0, 1, 5))))
    subs.append(('plist-each-pool-file', [{'plist': n} for n in names]))
    subs.append(('plist-several-files', [{'plist': list(c)} for k in (2, 3) for c in itertools.product(SUBPOOL if k == 2 else SUBPOOL[:5], repeat=k)]))
    return subs


def describe(case):
    if 'plist' in case:
        return 'plist ' + (case['plist'] if isinstance(case['plist'], str) else ' '.join(case['plist']))
    return 'pbind %s%s -> out.p %s' % ('-q ' if case['quiet'] else '', ' '.join(case['files']), ' '.join(('+f ' + a[1:]) if a.startswith('+') else ('-f ' + a) for a in (FILTERS[case['filter']] or [])))


LINE = re.compile(r'^(.{13}) (\S+)\s+([0-9A-F]{8})\s+([0-9A-F]{4})\s+([0-9A-F]{8})\s*$')


def check_plist(recs, name, d):
    """returns None or (sig, detail)"""
    o = core.run('plist', [name] if isinstance(name, str) else list(name), timeout=30)
    ck = core.crashkind(o)
    if ck:
        return 'crash/plist/' + ck, '%s in plist on %s' % (ck, d)
    if o.rc != 0:
        return 'plist/rc', 'plist exit %s %s on %s' % (o.rc, o.err[:80], d)
    out = o.out.decode('latin-1')
    ind = 0 if isinstance(name, str) else 6      # with several files every record line is indented below its file name
    rows = [m for m in (LINE.match(l[ind:]) for l in out.split('\n') if l[:ind].strip() == '') if m]
    data = [r for r in recs if r['kind'] == 'data']
    if len(rows) != len(data):
        return 'plist/line-count', 'plist prints %d record lines, file holds %d data records on %s' % (len(rows), len(data), d)
    fam = {}
    for m, r in zip(rows, data):
        st, ln, en = int(m.group(3), 16), int(m.group(4), 16), int(m.group(5), 16)
        n = len(r['data'])
        exp_end = (r['start'] + (n // r['gran'] - 1 if n else -1)) & 0xffffffff
        if (st, ln, en) != (r['start'], n, exp_end):
            return 'plist/row-values', 'plist row "%s" but record start=%x len=%x last=%x on %s' % (m.group(0).strip(), r['start'], n, exp_end, d)
        if m.group(2) != SEGN.get(r['seg']):
            return 'plist/segment-name', 'plist row "%s" but record segment is %s on %s' % (m.group(0).strip(), SEGN.get(r['seg']), d)
        nm = m.group(1).strip()
        if r['cpu'] in (0x7e + 0x100, 0x0f):
            if nm.lower() != '???=%02x' % r['cpu']:
                return 'plist/family-unknown', 'unknown family %02x shown as "%s" on %s' % (r['cpu'], nm, d)
        elif nm.startswith('???'):
            return 'plist/family-unknown', 'documented family %02x shown as "%s" on %s' % (r['cpu'], nm, d)
        if FAMNAME.get(r['cpu']) and nm != FAMNAME[r['cpu']]:
            return 'plist/family-name', 'family %02x shown as "%s" on %s' % (r['cpu'], nm, d)
        if fam.setdefault(r['cpu'], nm) != nm:
            return 'plist/family-inconsistent', 'family %02x shown under two names on %s' % (r['cpu'], d)
    ents = [r['entry'] for r in recs if r['kind'] == 'entry']
    shown = [int(x, 16) for x in re.findall(r'<entry point>\s+([0-9A-F]{8})', out)]
    if shown != ents:
        return 'plist/entry', 'plist shows entry points %s, file holds %s on %s' % (shown, ents, d)
    sums = {}
    for r in data:
        sums[r['seg']] = sums.get(r['seg'], 0) + len(r['data'])
    tot = {}
    for m in re.finditer(r'(?:altogether)?\s+(\S+) bytes?\s+(\w+)\s*$', out, re.M):
        if m.group(2) in SEGN.values():
            tot[m.group(2)] = m.group(1)
    want = {SEGN[s]: str(v) for s, v in sums.items() if v}
    tot = {k: v for k, v in tot.items() if v != '0'}
    if tot != want:
        return 'plist/totals', 'plist totals %s, sums of record lengths %s on %s' % (tot, want, d)
    return None


def evaluate(case):
    core.fresh()
    if 'plist' in case and not isinstance(case['plist'], str):
        recs, names = [], []
        for i, f in enumerate(case['plist']):
            core.put('in%d.p' % i, pfile.write(POOL[f]))
            names.append('in%d.p' % i)
            recs += POOL[f]
        r = check_plist(recs, names, describe(case))
        if r:
            return core.R(False, r[0].split('/')[1], r[0] + '/several-files', r[1])
        return core.R(True, 'plist-ok', states=['pl:%d' % len(names)])
    if 'plist' in case:
        recs = POOL[case['plist']]
        core.put('in.p', pfile.write(recs))
        r = check_plist(recs, 'in.p', describe(case))
        if r:
            return core.R(False, r[0].split('/')[1], r[0], r[1])
        return core.R(True, 'plist-ok', states=['pl:' + case['plist']])
    flt = FILTERS[case['filter']]
    ids = filter_ids(flt)
    names = []
    want = []
    for i, f in enumerate(case['files']):
        core.put('i%d.p' % i, pfile.write(POOL[f]))
        names.append('i%d.p' % i)
        for r in POOL[f]:
            if r['kind'] == 'entry' or ids is None or r['cpu'] in ids:
                want.append(r)
    args = (['-q'] if case['quiet'] else []) + names + ['out.p']
    for a in (flt or []):
        args += ['+f', a[1:]] if a.startswith('+') else ['-f', a]
    # run from a directory that does not hold the message files: the tool must not depend on where it is started
    o = core.run('pbind', args, timeout=60)
    d = describe(case)
    ck = core.crashkind(o)
    if ck:
        return core.R(False, ck, 'crash/pbind/' + ck, '%s on %s' % (ck, d))
    if o.rc != 0:
        return core.R(False, 'pbind-rc', 'pbind/rc/%s' % ('quiet' if case['quiet'] else 'verbose'), 'pbind exit %s: %s on %s' % (o.rc, (o.err + o.out)[-120:].decode('latin-1'), d))
    outb = core.get('out.p')
    try:
        got = pfile.read(outb)
    except (pfile.FormatError, TypeError) as e:
        return core.R(False, 'pbind-malformed', 'pbind/malformed', 'output is not a well-formed code file (%s) on %s' % (e, d))
    if got[-1].kind != 'creator':
        return core.R(False, 'pbind-malformed', 'pbind/creator', 'creator record missing on ' + d)
    g = [r.key() for r in got[:-1]]
    w = [('data', r['cpu'], r['seg'], r['gran'], r['start'], bytes(r['data'])) if r['kind'] == 'data' else ('entry', r['entry']) for r in want]
    if g != w:
        kind = 'count' if len(g) != len(w) else 'fields'
        i = next((k for k in range(min(len(g), len(w))) if g[k] != w[k]), min(len(g), len(w)))
        return core.R(False, 'pbind-records', 'pbind/records/%s/filter%d' % (kind, case['filter']),
                      'output has %d records, filtered inputs %d; first difference at #%d: %s vs %s on %s' % (len(g), len(w), i, str(g[i:i + 1])[:90], str(w[i:i + 1])[:90], d))
    r = check_plist(want, 'out.p', d + ' | plist out.p')
    if r:
        return core.R(False, r[0].split('/')[1], r[0], r[1], transitions=2)
    return core.R(True, 'conserved', states=['%d/%d' % (len(w), case['filter'])], nontrivial=len(w) > 1, transitions=2)
