import itertools, os, subprocess, sys, tempfile, shutil, collections, struct, re
sys.path.insert(0,'/tmp/w/s')
from pdump import parse
B='/repo/_build/'
GR={0x41:1,0x70:2,0x76:4,0x3b:2}
def rec(cpu,seg,gran,start,data,long_=None):
    short=(seg==1 and gran==GR.get(cpu,1) and cpu<0x80)
    if long_ is None: long_=not short
    h=bytes([0x81,cpu,seg,gran]) if long_ else bytes([cpu])
    return h+struct.pack('<IH',start,len(data))+data
def f(*parts): return b'\x89\x14'+b''.join(parts)+b'\x00CREATOR'
POOL={
 'short41':f(rec(0x41,1,1,0x100,b'\x01\x02\x03')),
 'long41':f(rec(0x41,1,1,0x100,b'\x01\x02\x03',True)),
 'data41':f(rec(0x41,2,1,0x20,b'\x09')),
 'pic':f(rec(0x70,1,2,0x10,b'\xff\x3f\x00\x00')),
 'gran4code41':f(rec(0x41,1,4,0x10,b'\x01\x02\x03\x04')),
 'entry':f(rec(0x41,1,1,0,b'\x00'),b'\x80'+struct.pack('<I',0x1234)),
 'zero':f(rec(0x41,1,1,0x50,b''),rec(0x41,1,1,0x60,b'\x07')),
 'big':f(rec(0x41,1,1,0,bytes(range(256))*255+bytes(255))),
 'unk':f(rec(0x7e,1,1,0,b'\x01'),rec(0x0f,1,1,0,b'\x02')),
 'two':f(rec(0x41,1,1,0,b'\x01'),rec(0x70,1,2,0,b'\x02\x03')),
}
def recs(b): return [x for x in parse(b) if x[0] in('data','entry')]
d=tempfile.mkdtemp(dir='/dev/shm')
for n,b in POOL.items(): open(d+'/%s.p'%n,'wb').write(b)
bad=[]; n=0
names=list(POOL)
for k in (1,2):
  for combo in itertools.product(names,repeat=k):
    for flt in (None,[0x41],[0x41,0x70],[0x12]):
        if os.path.exists(d+'/out.p'): os.unlink(d+'/out.p')
        a=[B+'pbind','-q']+[c+'.p' for c in combo]+['out.p']+(['-f',','.join(hex(x) for x in flt)] if flt else [])
        r=subprocess.run(a,cwd=d,capture_output=True,env={'LC_ALL':'C'},timeout=20)
        n+=1
        if r.returncode!=0: bad.append((combo,flt,'rc%d %s'%(r.returncode,r.stderr[:60]))); continue
        try: got=recs(open(d+'/out.p','rb').read())
        except Exception as e: bad.append((combo,flt,'PARSE %r'%e)); continue
        want=[]
        for c in combo:
            for x in recs(POOL[c]):
                if x[0]=='entry' or flt is None or x[2] in flt: want.append(x)
        g=[(x[0],)+tuple(x[2:]) if x[0]=='data' else x for x in got]; w=[(x[0],)+tuple(x[2:]) if x[0]=='data' else x for x in want]
        if g!=w: bad.append((combo,flt,'RECS got %d want %d'%(len(g),len(w))))
print(n,'pbind runs',len(bad),'bad')
for b in bad[:12]: print(b)
# plist
for nme in names:
    r=subprocess.run([B+'plist','-q',nme+'.p'] if False else [B+'plist',nme+'.p'],cwd=d,capture_output=True,env={'LC_ALL':'C'},timeout=20)
    lines=[l for l in r.stdout.decode().split('\n') if re.search(r'[0-9A-F]{8}\s+[0-9A-F]{4}\s+[0-9A-F]{8}',l)]
    want=[x for x in recs(POOL[nme]) if x[0]=='data']
    ok=len(lines)==len(want)
    for l,x in zip(lines,want):
        m=re.search(r'(\S+)\s+([0-9A-F]{8})\s+([0-9A-F]{4})\s+([0-9A-F]{8})',l)
        st,ln,en=int(m.group(2),16),int(m.group(3),16),int(m.group(4),16)
        exp_end=(x[5]+len(x[7])//x[4]-1)&0xffffffff
        if (st,ln,en)!=(x[5],len(x[7]),exp_end): ok=False; print('plist',nme,l.strip(),'want',hex(x[5]),hex(len(x[7])),hex(exp_end))
    print('plist',nme,'rc',r.returncode,'ok' if ok else 'BAD', [l for l in r.stdout.decode().split('\n') if 'altogether' in l or 'bytes' in l][:2])
shutil.rmtree(d)
