"""C05 - P2BIN writes the memory image described by the code file.

Code files are WRITTEN by the independent pfile writer (1..3 records, mixed families/segments/granularities,
gaps and overlaps, optional entry record, one or two input files with (offset) suffix) and converted with every
option set within k deviations of the default.  The oracle is the statement, literally: byte i of the output is
the byte the selected records place at start+i (scaled by granularity, thinned by the lane predicate) or the fill
value; length, auto bounds, -s checksum, -S/-e header and the overlap warning are checked.
"""
import collections, itertools
from .. import core
from ..fmt import pfile

ID = 'C05'
LEVEL = 'model_checking'
VARIANTS = ['plain']
CHUNK = 64
ENGINE = 'product-enumerator'
TECHNIQUE = 'exhaustive record layouts (written by an independent code-file writer) x option deviations executed on the real p2bin against an image model'
LEVEL_TEXT = ('Every layout of one or two records (thorough: three) over start in {0,1,2,3,5,8,16} x length in {1,2,3,5} x segment x three '
              'granularities, mixed-granularity and multi-file/(offset) layouts, under every option set within 1 (quick) / 2 (thorough) deviations '
              'over -r, -l, -m (all 9 lanes), -S, -e, -s, -f, -segment is converted by the rebuilt p2bin; the whole output file, the exit status '
              'and the overlap warning are compared with the image the statement describes.'
              ' Quick additionally enumerates all three-record layouts of one family (chained overlap bookkeeping) and every -S header combined with -s.'
              ' Windows that leave an image without a byte are combined with -s and -S.'
              ' Added in the last round: ids taken off the filter list with +f.'
              ' Lane modes are also run with windows that start off zero (start and length whole lane groups in bytes; granularity 1, 2 and 4).')
LEVEL_NOTE = ('Trusted: pfile writer (self-tested against its reader and against asl-produced files), the image model. Lane modes are enumerated '
              'with windows aligned to the lane period (the manual defines the thinned image only for whole lane groups).')
RULE = 'layout x option set; non-trivial = at least two records or one option deviation'
BOUNDS = {'quick': '1-2 record layouts of one family + mixed layouts, k<=1', 'thorough': 'all families, 3-record layouts, k<=2'}
ASSUMPTIONS = ['with several granularities selected, addresses are scaled by the largest one']

GRAN = {0x41: 1, 0x70: 2, 0x76: 4}
LANES = {'ALL': (1, 0, 0), 'EVEN': (2, 1, 0), 'ODD': (2, 1, 1), 'BYTE0': (4, 3, 0), 'BYTE1': (4, 3, 1), 'BYTE2': (4, 3, 2), 'BYTE3': (4, 3, 3),
         'WORD0': (2, 2, 0), 'WORD1': (2, 2, 2)}


def mkrecs(layout):
    out = []
    for k, (c, s, st, n, short) in enumerate(layout):
        out.append(dict(kind='data', cpu=c, seg=s, gran=GRAN[c], start=st, short=bool(short and s == 1),
                        data=bytes(((0x11 * (k + 1)) + i) & 0xff for i in range(n * GRAN[c]))))
    return out


def model(files, opt):
    """files: list of (records, entry, offset). Returns ('autofail',) or ('ok', bytes, overlap)"""
    seg = opt.get('seg', 1)
    flt = opt.get('f')
    if flt is not None and 'nf' in opt:
        flt = [x for x in flt if x not in opt['nf']] or None      # ids taken off the list again with +f; an empty list is no filter
    sel = []
    entry = None
    for recs, ent, off in files:
        if entry is None and ent is not None:
            entry = ent
        for r in recs:
            if r['seg'] == seg and (flt is None or r['cpu'] in flt):
                sel.append((r['cpu'], r['start'] + off, r['data']))
    lo, hi = opt.get('r', (None, None))
    if lo is None or hi is None:
        if not sel:
            return ('autofail',)
        if lo is None:
            lo = min(st for _, st, _ in sel)
        if hi is None:
            hi = max(st + len(d) // GRAN[c] - 1 for c, st, d in sel)
        if lo > hi:
            return ('autofail',)
    maxg = max([GRAN[c] for c, _, _ in sel] or [1])
    div, mask, eq = LANES[opt.get('m', 'ALL')]
    fill = opt.get('l', 0xff)
    nbytes = (hi - lo + 1) * maxg
    img = {}
    cover = collections.Counter()
    mixed = len(set(GRAN[c] for c, _, _ in sel)) > 1
    for c, st, d in sel:
        g = GRAN[c]
        for i, by in enumerate(d):
            a = st + i // g
            if lo <= a <= hi:
                img[(a - lo) * g + i % g] = by
        for a in range(st, st + len(d) // g):
            if lo <= a <= hi:
                cover[a] += 1
    overlap = any(v > 1 for v in cover.values())
    out = []
    for ba in range(nbytes):
        absb = lo * maxg + ba
        if div == 1 or (absb & mask) == eq:
            out.append(img.get(ba, fill))
    S = opt.get('S')
    ent = opt.get('e', entry)
    hdr = b''
    if S:
        n = abs(S)
        v = ent if ent is not None else 0
        bs = [(v >> (8 * i)) & 0xff for i in range(n)]
        if S < 0:
            bs = bs[::-1]
        hdr = bytes(bs)
    body = bytes(out)
    if opt.get('s') and body:
        body = body[:-1] + bytes([(-sum(body[:-1])) & 0xff])
    return ('ok', hdr + body, overlap, mixed)


def argv(opt):
    a = []
    if 'r' in opt:
        lo, hi = opt['r']
        a += ['-r', '%s-%s' % ('0x' if lo is None else hex(lo), '0x' if hi is None else hex(hi))]
    if 'l' in opt:
        a += ['-l', str(opt['l'])]
    if 'm' in opt:
        a += ['-m', opt['m']]
    if 'S' in opt:
        a += ['-S', ('B%d' % -opt['S']) if opt['S'] < 0 else 'L%d' % opt['S']]
    if 'e' in opt:
        a += ['-e', hex(opt['e'])]
    if opt.get('s'):
        a += ['-s']
    if 'f' in opt:
        a += ['-f', ','.join(hex(x) for x in opt['f'])]
    if 'nf' in opt:
        a += ['+f', ','.join(hex(x) for x in opt['nf'])]
    if 'seg' in opt:
        a += ['-segment', {1: 'code', 2: 'data'}[opt['seg']]]
    return a


OPTS1 = [{'r': r} for r in [(None, None), (0, 15), (2, 5), (None, 4), (3, None), (32, 47)]] + [{'l': 0}, {'l': 0xa5}] + \
        [{'m': m} for m in LANES if m != 'ALL'] + [{'S': S} for S in (1, 2, 4, -2, -4)] + [{'e': 0x1234}] + [{'s': True}] + \
        [{'f': [0x41]}, {'f': [0x70]}, {'f': [0x76]}, {'f': [0x12]}, {'f': [0x41, 0x70]}] + [{'seg': 2}] + \
        [{'f': [0x41, 0x70], 'nf': [0x41]}, {'f': [0x70, 0x41, 0x76], 'nf': [0x70]}, {'f': [0x41, 0x76, 0x70], 'nf': [0x76]}, {'f': [0x41], 'nf': [0x41]}]


def optsets(k):
    out = [{}] + [dict(o) for o in OPTS1]
    if k >= 2:
        for a, b in itertools.combinations(OPTS1, 2):
            if set(a) & set(b):
                continue
            d = dict(a)
            d.update(b)
            out.append(d)
    res = []
    for o in out:
        if o.get('m', 'ALL') != 'ALL':
            o = dict(o)
            if 'r' not in o or o['r'] != (0, 15):
                o['r'] = (0, 15)     # lane modes: explicit window aligned to the lane period
        res.append(o)
    # dedupe
    seen = set()
    uniq = []
    for o in res:
        key = repr(sorted(o.items()))
        if key not in seen:
            seen.add(key)
            uniq.append(o)
    return uniq


def one_records(cpus):
    out = []
    for c in cpus:
        for s in (1, 2):
            for st in (0, 1, 2, 3, 5, 8, 16):
                for n in (1, 2, 3, 5):
                    out.append((c, s, st, n, 1))
    return out


def subspaces(tier):
    q = tier == 'quick'
    k = 1 if q else 2
    O = optsets(k)
    subs = []

    def lay(cpus, nrec):
        one = one_records(cpus)
        if nrec == 1:
            for a in one:
                yield [a]
        elif nrec == 2:
            for a in one:
                for b in one:
                    if a[1] == 1 or b[1] == 1:
                        yield [a, b]
        else:
            small = [x for x in one if x[2] in (0, 2, 5) and x[3] in (1, 3) and x[1] == 1]
            for a in small:
                for b in small:
                    for c in small:
                        yield [a, b, c]

    def cases(cpus, nrec, opts):
        for l in lay(cpus, nrec):
            for o in opts:
                yield {'files': [{'recs': [list(x) for x in l], 'entry': None, 'off': 0}], 'opt': o}
    subs.append(('one-record x opts<=%d' % k, cases([0x41, 0x70, 0x76], 1, O)))
    subs.append(('two-records-8080 x opts<=%d' % k, cases([0x41], 2, O)))
    # option pairs that share one output position (the checksum byte behind the -S header, inside a lane or a window)
    pairs = [dict(a, **b) for a in ({'S': 1}, {'S': 2}, {'S': -4}, {'S': 3, 'e': 0x123456}) for b in ({'s': True}, {'s': True, 'r': (0, 15)}, {'s': True, 'l': 0})]
    subs.append(('one-record x header+checksum', cases([0x41, 0x70], 1, pairs)))
    # a window shorter than the lane period leaves an image without a single byte: -s then has no byte to put the sum into
    empt = [dict(a, **b) for a in ({'s': True, 'r': (0, 0), 'm': 'ODD'}, {'s': True, 'r': (0, 0), 'm': 'BYTE3'}, {'s': True, 'r': (0, 2), 'm': 'BYTE3'}, {'s': True, 'r': (0, 0), 'm': 'WORD1'})
            for b in ({}, {'S': 2}, {'S': -4})]
    subs.append(('one-record x checksum-on-empty-image', cases([0x41], 1, empt)))
    # lane modes with a window that starts off zero: start and length are whole lane groups in BYTES (the start address is scaled
    # by the granularity before the lane predicate is applied), one record and two records of the same family
    def lanewin():
        W = {0x41: [(4, 19), (8, 15)], 0x70: [(2, 9), (2, 17), (4, 11), (6, 13)], 0x76: [(1, 4), (2, 9), (3, 6)]}
        for c in (0x41, 0x70, 0x76):
            one = [x for x in one_records([c]) if x[1] == 1]
            two = [x for x in one if x[3] in (1, 2)]
            lays = [[a] for a in one] + [[a, b] for a in two for b in two if a[2] + a[3] <= b[2]]
            for l in lays:
                for m in LANES:
                    if m == 'ALL':
                        continue
                    for w in W[c]:
                        yield {'files': [{'recs': [list(x) for x in l], 'entry': None, 'off': 0}], 'opt': {'m': m, 'r': w}}
    subs.append(('lanes x windows-off-zero', lanewin()))
    if q:
        # chained merges of the overlap bookkeeping need three records (a new record overlapping one neighbour and abutting the other)
        subs.append(('three-records-8080', cases([0x41], 3, [{}, {'r': (0, 15)}, {'l': 0}])))
    if not q:
        subs.append(('two-records-pic x opts<=%d' % k, cases([0x70], 2, O)))
        subs.append(('two-records-c3x x opts<=1', cases([0x76], 2, optsets(1))))
        subs.append(('three-records x opts<=1', cases([0x41, 0x70], 3, optsets(1))))

    def mixed():
        a8 = [(0x41, 1, st, n, sh) for st in (0, 2, 5) for n in (1, 3) for sh in (0, 1)]
        a16 = [(0x70, 1, st, n, sh) for st in (0, 1, 4) for n in (1, 2) for sh in (0, 1)]
        a32 = [(0x76, 1, st, n, 1) for st in (0, 3) for n in (1, 2)]
        for x, y in itertools.chain(itertools.product(a8, a16), itertools.product(a16, a32), itertools.product(a16, a8)):
            for o in optsets(1):
                yield {'files': [{'recs': [list(x), list(y)], 'entry': None, 'off': 0}], 'opt': o}
    subs.append(('mixed-granularity', mixed()))

    def multi():
        one = [(0x41, 1, st, n, 1) for st in (0, 3, 8) for n in (1, 3)]
        for a in one:
            for b in one:
                for off in (0, 0x10, 2):
                    for ent in ((None, None), (0x55, None), (None, 0x66), (0x55, 0x66)):
                        for o in [{}, {'S': 2}, {'S': -4}, {'r': (0, 31)}, {'S': 2, 'e': 0x1234}, {'m': 'ODD', 'r': (0, 31)}]:
                            yield {'files': [{'recs': [list(a)], 'entry': ent[0], 'off': 0}, {'recs': [list(b)], 'entry': ent[1], 'off': off}], 'opt': o}
    subs.append(('two-files-offset-entry', multi()))
    return subs


def describe(case):
    return 'p2bin %s  on %s' % (' '.join(argv(case['opt'])), [['cpu=%02x seg=%d start=%d units=%d%s' % tuple(r[:4] + ['' if r[4] else ' long']) for r in f['recs']] + (['entry=%s' % f['entry']] if f['entry'] is not None else []) + (['offset=%d' % f['off']] if f['off'] else []) for f in case['files']])


def sig_of(case, kind):
    o = case['opt']
    keys = '+'.join(sorted(k for k in o if not (k == 'r' and o.get('m', 'ALL') != 'ALL')))
    grans = sorted(set(GRAN[r[0]] for f in case['files'] for r in f['recs']))
    return '%s/opts=%s/gran=%s' % (kind, keys or 'none', ','.join(map(str, grans)))


def evaluate(case):
    core.fresh()
    files = []
    names = []
    for i, f in enumerate(case['files']):
        recs = mkrecs([tuple(r) for r in f['recs']])
        wr = list(recs)
        if f['entry'] is not None:
            wr.append(dict(kind='entry', entry=f['entry']))
        core.put('f%d.p' % i, pfile.write(wr))
        files.append((recs, f['entry'], f['off']))
        names.append('f%d.p' % i + ('(%s)' % hex(f['off']) if f['off'] else ''))
    opt = {k: (tuple(v) if k == 'r' else v) for k, v in case['opt'].items()}
    o = core.run('p2bin', ['-q'] + names + ['out.bin'] + argv(opt))
    d = describe(case)
    ck = core.crashkind(o)
    if ck:
        return core.R(False, ck, sig_of(case, 'crash/' + ck), '%s on %s' % (ck, d))
    m = model(files, opt)
    if m[0] == 'autofail':
        if o.rc != 1:
            return core.R(False, 'autofail', sig_of(case, 'autofail-rc'), 'nothing selected: documented exit 1, got %s on %s' % (o.rc, d))
        return core.R(True, 'auto-range-failed')
    if o.rc != 0:
        return core.R(False, 'rc', sig_of(case, 'rc'), 'exit %s %s on %s' % (o.rc, o.err[:80].decode('latin-1'), d))
    got = core.get('out.bin')
    if got != m[1]:
        kind = 'length' if got is None or len(got) != len(m[1]) else 'content'
        return core.R(False, 'image-' + kind, sig_of(case, 'image-' + kind), 'output %s, model %s on %s' % (got.hex() if got is not None else None, m[1].hex(), d))
    ov = b'overlap' in (o.err + o.out).lower()
    if ov != m[2] and not m[3]:
        return core.R(False, 'overlap-warning', sig_of(case, 'overlap-' + ('spurious' if ov else 'missing')), 'overlap warning %s, model %s on %s' % (ov, m[2], d))
    return core.R(True, 'image-ok', nontrivial=bool(case['opt']) or sum(len(f['recs']) for f in case['files']) > 1,
                  states=['%d/%s' % (len(m[1]), '+'.join(sorted(case['opt'])))])
