"""Exact (Fraction-based) IEEE-754 encoder with round-to-nearest-even, independent of the C code under check."""
import math, struct
from fractions import Fraction


def enc(x, eb, mb, explicit=False):
    """x: Python float (the double nearest the source literal) -> integer bit pattern.
    eb exponent bits, mb stored fraction bits; explicit=True: x87/68k extended style with an explicit integer bit
    (mb then counts the 63 fraction bits; total = 1 + eb + 64)."""
    sign = 1 if math.copysign(1.0, x) < 0 else 0
    top = eb + mb + (1 if explicit else 0)
    if math.isinf(x):
        return (sign << top) | (((1 << eb) - 1) << (mb + (1 if explicit else 0))) | ((1 << mb) if explicit else 0)
    f = Fraction(abs(x))
    bias = (1 << (eb - 1)) - 1
    if f == 0:
        return sign << top
    e = f.numerator.bit_length() - f.denominator.bit_length()
    if Fraction(2) ** e > f:
        e -= 1
    if Fraction(2) ** (e + 1) <= f:
        e += 1
    emin = 1 - bias
    if e < emin:
        e = emin
    scaled = f / (Fraction(2) ** (e - mb))
    n = scaled.numerator // scaled.denominator
    rem = scaled - n
    if rem > Fraction(1, 2) or (rem == Fraction(1, 2) and (n & 1)):
        n += 1
    if n >= (1 << (mb + 1)):
        n >>= 1
        e += 1
    if n < (1 << mb):
        expf = 0
        man = n
        intbit = 0
    else:
        expf = e + bias
        man = n - (1 << mb)
        intbit = 1
    if expf >= (1 << eb) - 1:
        return None   # overflow: not representable as a finite number
    if explicit:
        return (sign << top) | (expf << (mb + 1)) | (intbit << mb) | man
    return (sign << top) | (expf << mb) | man


def half(x):
    return enc(x, 5, 10)


def single(x):
    return enc(x, 8, 23)


def double(x):
    return enc(x, 11, 52)


def ext80(x):
    return enc(x, 15, 63, explicit=True)


def half_val(p):
    s = -1 if p >> 15 else 1
    e = (p >> 10) & 31
    m = p & 1023
    if e == 0:
        return s * Fraction(m, 1 << 24)
    return s * Fraction((1 << 10) + m, 1 << 10) * Fraction(2) ** (e - 15)


def dec(fr, maxd=80):
    """exact decimal string of a dyadic rational (all of them terminate)"""
    s = '-' if fr < 0 else ''
    fr = abs(fr)
    ip = fr.numerator // fr.denominator
    r = fr - ip
    digs = ''
    while r and len(digs) < maxd:
        r *= 10
        d = r.numerator // r.denominator
        digs += str(d)
        r -= d
    return s + str(ip) + '.' + (digs or '0')


def selftest():
    import random
    rnd = random.Random(1)
    vals = [0.0, 1.0, -1.0, 0.5, 1.5, 3.141592653589793, 1e-40, 1e-45, 1.4e-45, 3.4028234663852886e38, 1e38, 65504.0, 6.1e-5, 5.96e-8]
    vals += [rnd.uniform(-1e6, 1e6) for _ in range(200)] + [rnd.uniform(0, 1e-38) for _ in range(100)]
    for v in vals:
        assert single(v) == struct.unpack('<I', struct.pack('<f', v))[0], v
        assert double(v) == struct.unpack('<Q', struct.pack('<d', v))[0], v
        try:
            hv = struct.unpack('<H', struct.pack('<e', v))[0]
        except OverflowError:
            hv = None
        if hv is not None and not (hv & 0x7fff) == 0x7c00:
            assert half(v) == hv, (v, half(v), hv)
    assert ext80(1.0) == (0x3fff << 64) | (1 << 63)
    return True
