#!/bin/bash
# tools/confirm_mutant.sh <name> <property> <patch.diff> <demo.sh> <notes.txt>
# Confirms in a scratch worktree: demo passes on unmodified code; with the patch the tree builds, the 201 tests pass and
# the demo fails. On success stores /verif/seeded/<name>/{patch.diff,demo.sh,meta.json}.
set -u
name=$1; prop=$2; patch=$(readlink -f $3); demo=$(readlink -f $4); notes=$(readlink -f $5)
base=/dev/shm/confirm; wt=$base/wt; bd=$base/build
mkdir -p $base
[ -d $wt ] || git -C /repo worktree add -q --detach $wt HEAD
git -C $wt checkout -q --detach $(git -C /repo rev-parse HEAD); git -C $wt checkout -q -- .
cfg() { [ -f $bd/build.ninja ] || cmake -G Ninja -S $wt -B $bd -DCMAKE_BUILD_TYPE=Release -DFORCE_COLORED_OUTPUT=OFF >/dev/null; ninja -C $bd >/dev/null 2>&1; }
cfg || { echo "baseline build failed"; exit 2; }
LC_ALL=C AS_MSGPATH=$bd bash $demo $bd >/dev/null 2>&1; d0=$?
git -C $wt apply $patch || { echo "patch does not apply"; exit 2; }
cfg || { echo "mutant build failed"; git -C $wt checkout -q -- .; exit 2; }
tests=$(ctest --test-dir $bd -j16 --timeout 900 2>&1 | grep "tests passed" )
LC_ALL=C AS_MSGPATH=$bd bash $demo $bd >/dev/null 2>&1; d1=$?
git -C $wt checkout -q -- .
echo "$name: demo unmodified=$d0 mutant=$d1 ; $tests"
if [ $d0 -eq 0 ] && [ $d1 -ne 0 ] && echo "$tests" | grep -q "100% tests passed"; then
  out=/verif/seeded/$name; mkdir -p $out; cp $patch $out/patch.diff; cp $demo $out/demo.sh
  python3 - "$name" "$prop" "$notes" "$tests" "$d0" "$d1" <<'PY'
import json,sys
name,prop,notes,tests,d0,d1=sys.argv[1:]
json.dump(dict(name=name,property=prop,origin='independent sub-agent given only the property text and a scratch worktree',
  needs_to_manifest=open(notes).read(),
  confirmed=dict(repo_commit=__import__('subprocess').run(['git','-C','/repo','rev-parse','--short','HEAD'],capture_output=True,text=True).stdout.strip(),
     patch_applies=True,builds=True,ctest=tests.strip(),demo_exit_unmodified=int(d0),demo_exit_mutant=int(d1)),
  detected_by={}),open('/verif/seeded/%s/meta.json'%name,'w'),indent=1)
PY
  echo "STORED $out"
else echo "NOT CONFIRMED"; fi
