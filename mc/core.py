"""Shared machinery: case execution, exhaustive sub-space driver, evidence, replay, known findings.

A check module (mc/checks/cNN.py) provides

    ID, LEVEL ('model_checking' | 'fault_enumeration'), RULE (text), VARIANTS (builds needed)
    subspaces(tier)   -> list of (name, iterable-of-cases)         cases are JSON-serialisable
    evaluate(case)    -> dict(ok, sig, detail, outcome, nontrivial, states, transitions)
                         executed in a worker process against the real, freshly rebuilt binaries

and this driver enumerates every sub-space completely (never samples), aggregates what was covered,
turns disagreements into replayable artefacts and matches them against known_findings.txt.
"""
import collections, hashlib, json, multiprocessing, os, resource, shutil, signal, subprocess, sys, time
from . import build

ROOT = build.ROOT
SHM = '/dev/shm' if os.path.isdir('/dev/shm') else '/tmp'
SCRATCH_BASE = os.path.join(SHM, 'verif-scratch')
FSIZE_CAP = 64 << 20

Obs = collections.namedtuple('Obs', 'rc sig out err timeout wall')

_wd = None


def workdir():
    """Private scratch directory of this process (created lazily, emptied by fresh())."""
    global _wd
    if _wd is None or not os.path.isdir(_wd):
        _wd = os.path.join(SCRATCH_BASE, 'r%d' % os.getppid(), 'w%d' % os.getpid())
        os.makedirs(_wd, exist_ok=True)
    return _wd


def fresh():
    d = workdir()
    for n in os.listdir(d):
        p = os.path.join(d, n)
        if os.path.isdir(p) and not os.path.islink(p):
            shutil.rmtree(p, ignore_errors=True)
        else:
            try:
                os.unlink(p)
            except OSError:
                pass
    return d


def put(name, data, d=None):
    d = d or workdir()
    p = os.path.join(d, name)
    if os.path.dirname(name):
        os.makedirs(os.path.dirname(p), exist_ok=True)
    if isinstance(data, str):
        data = data.encode('latin-1')
    with open(p, 'wb') as f:
        f.write(data)
    return p


def get(name, d=None):
    try:
        with open(os.path.join(d or workdir(), name), 'rb') as f:
            return f.read()
    except OSError:
        return None


def base_env(variant='plain', extra=None):
    e = {'LC_ALL': 'C', 'PATH': '/usr/bin:/bin', 'AS_MSGPATH': build.bindir(variant), 'USEANSI': 'n',
         'ASAN_OPTIONS': 'detect_leaks=0:abort_on_error=0:exitcode=99:allocator_may_return_null=1'}
    if extra:
        e.update(extra)
    return e


def tool(name, variant='plain'):
    return os.path.join(build.bindir(variant), name)


def run(name, args, variant='plain', cwd=None, timeout=10, env=None, stdin=None, maxout=1 << 20):
    """Run one of the real binaries; stdout/stderr go to bounded files in scratch space."""
    cwd = cwd or workdir()
    fo = os.path.join(workdir(), '.stdout')
    fe = os.path.join(workdir(), '.stderr')
    t0 = time.time()
    to = False
    with open(fo, 'wb') as o, open(fe, 'wb') as e:
        p = subprocess.Popen([tool(name, variant)] + list(args), cwd=cwd, stdout=o, stderr=e,
                             stdin=subprocess.PIPE if stdin is not None else subprocess.DEVNULL,
                             env=base_env(variant, env), close_fds=True)
        try:
            if stdin is not None:
                p.communicate(stdin, timeout=timeout)
            else:
                p.wait(timeout=timeout)
        except subprocess.TimeoutExpired:
            to = True
            p.kill()
            p.wait()
    with open(fo, 'rb') as f:
        out = f.read(maxout)
    with open(fe, 'rb') as f:
        err = f.read(maxout)
    rc = p.returncode
    return Obs(rc if rc >= 0 else None, -rc if rc < 0 else None, out, err, to, time.time() - t0)


def _init_worker():
    signal.signal(signal.SIGINT, signal.SIG_IGN)
    resource.setrlimit(resource.RLIMIT_FSIZE, (FSIZE_CAP, FSIZE_CAP))
    resource.setrlimit(resource.RLIMIT_CORE, (0, 0))
    # SIGXFSZ must kill the child tools, not this worker (which never writes big files)
    signal.signal(signal.SIGXFSZ, signal.SIG_IGN)


def crashkind(o):
    """None if the process ended by a normal exit without a sanitizer report."""
    if o.timeout:
        return 'HANG'
    if o.sig is not None:
        if o.sig == signal.SIGXFSZ:
            return None  # output proportional to the described image hit the file-size cap
        return 'SIG%d' % o.sig
    if o.rc == 99 or b'AddressSanitizer' in o.err:
        return 'ASAN'
    return None


def asan_site(err):
    """Top in-repo frame of an ASan report: 'func@file.c:line' (call-site signature)."""
    import re
    txt = err.decode('latin-1', 'replace')
    kind = ''
    m = re.search(r'AddressSanitizer: ([A-Za-z0-9_-]+)', txt)
    if m:
        kind = m.group(1)
    for m in re.finditer(r'#\d+ 0x[0-9a-f]+ in (\S+) (?:/repo|' + re.escape(build.REPO) + r')/([A-Za-z0-9_./-]+):(\d+)', txt):
        return '%s:%s@%s' % (kind, m.group(1), m.group(2))
    return kind or 'unknown'


# ---------------------------------------------------------------------------------------------

def R(ok, outcome='ok', sig=None, detail='', nontrivial=True, states=(), transitions=1):
    return dict(ok=ok, outcome=outcome, sig=sig, detail=detail, nontrivial=nontrivial,
                states=list(states), transitions=transitions)


def _call(args):
    fn, case = args
    try:
        r = fn(case)
    except Exception as ex:  # harness bug: never a VIOLATION
        import traceback
        r = dict(ok=True, outcome='HARNESS-ERROR', sig=None, detail=traceback.format_exc()[-1500:],
                 nontrivial=False, states=[], transitions=0, harness_error=True)
    return case, r


def _flatten(it):
    """a batched case returns a list of (micro-case, result): each micro-case counts as one case"""
    for case, r in it:
        if isinstance(r, list):
            for c2, r2 in r:
                yield c2, r2
        else:
            yield case, r


def load_known(pid):
    """open findings of this property: signature -> {'what': text}"""
    import re
    out = {}
    p = os.path.join(ROOT, 'known_findings.txt')
    if os.path.exists(p):
        for l in open(p):
            m = re.match(r'open:\s+property=(\S+)\s+signature=(\S+)\s+::\s+(.*)$', l.strip())
            if m and m.group(1) == pid:
                out[m.group(2)] = {'what': m.group(3), 'signature': m.group(2)}
    return out


def casehash(case):
    return hashlib.sha1(json.dumps(case, sort_keys=True).encode()).hexdigest()[:12]


def write_replay(pid, case, res):
    d = os.path.join(os.environ.get('VERIF_REPLAY_DIR', os.path.join(ROOT, 'replays')), pid, casehash(case))
    os.makedirs(d, exist_ok=True)
    with open(os.path.join(d, 'case.json'), 'w') as f:
        json.dump(case, f, indent=1)
    with open(os.path.join(d, 'observed.json'), 'w') as f:
        json.dump(res, f, indent=1)
    with open(os.path.join(d, 'README'), 'w') as f:
        f.write('property %s\nsignature %s\n%s\nreplay: ./check %s --replay %s\n' % (pid, res.get('sig'), res.get('detail'), pid, d))
    return d


def replay(mod, path):
    build_all(mod)
    _init_worker()
    p = path if path.endswith('.json') else os.path.join(path, 'case.json')
    case = json.load(open(p))
    r = mod.evaluate(case)
    print(json.dumps(r, indent=1))
    known = load_known(mod.ID)
    if r['ok']:
        print('HOLDS property=%s on replayed case' % mod.ID)
        return 0
    if r['sig'] in known:
        print('KNOWN-FINDING: property=%s %s' % (mod.ID, known[r['sig']]['what']))
        return 0
    print('VIOLATION property=%s replay=%s' % (mod.ID, path))
    return 1


def build_all(mod):
    for v in getattr(mod, 'VARIANTS', ['plain']):
        build.ensure(v)


def drive(mod, tier):
    t0 = time.time()
    seed = int(os.environ.get('VERIF_SEED', '0') or 0)
    deadline = t0 + float(os.environ.get('VERIF_DEADLINE_S', '900' if tier == 'quick' else '7200'))
    try:
        build_all(mod)
    except build.BuildError as ex:
        print('HARNESS-ERROR build failed\n%s' % ex)
        return 2
    global FSIZE_CAP
    FSIZE_CAP = getattr(mod, 'FSIZE_CAP', FSIZE_CAP)
    if hasattr(mod, 'prepare'):
        mod.prepare(tier)
    known = load_known(mod.ID)
    subs = list(mod.subspaces(tier))
    if seed:
        k = seed % len(subs)
        subs = subs[k:] + subs[:k]  # the seed only rotates the visiting order of complete sub-spaces
    shutil.rmtree(os.path.join(SCRATCH_BASE, 'r%d' % os.getpid()), ignore_errors=True)
    nproc = int(os.environ.get('VERIF_JOBS', '16'))
    pool = multiprocessing.Pool(nproc, initializer=_init_worker)
    states = set()
    tot = dict(evaluations=0, transitions=0, validated=0, nontrivial=0)
    outcomes = collections.Counter()
    viol = {}      # sig -> (case, res, count)
    knownhit = {}  # sig -> count
    harness = []
    samples = []
    subrep = []
    nontriv_keys = set()
    try:
        for name, cases in subs:
            st = time.time()
            n = 0
            complete = True
            if time.time() > deadline:
                subrep.append(dict(name=name, size=0, completed=False, wall_s=0.0))
                continue
            chunk = getattr(mod, 'CHUNK', 16)
            it = pool.imap_unordered(_call, ((mod.evaluate, c) for c in cases), chunksize=chunk)
            for case0, r0 in _flatten(it):
                case, r = case0, r0
                n += 1
                tot['evaluations'] += 1
                tot['transitions'] += r.get('transitions', 1)
                outcomes[r['outcome']] += 1
                for s in r.get('states', ()):
                    states.add(s)
                if r.get('harness_error'):
                    harness.append((case, r))
                    continue
                if r['ok']:
                    tot['validated'] += 1
                    if r.get('nontrivial', True):
                        nontriv_keys.add(casehash(case))
                    if len(samples) < 3 or (n == 1 and len(samples) < 12):
                        samples.append(dict(subspace=name, case=mod.describe(case) if hasattr(mod, 'describe') else case, outcome=r['outcome']))
                else:
                    sig = r['sig'] or 'unsigned'
                    if sig in known:
                        knownhit[sig] = knownhit.get(sig, 0) + 1
                    else:
                        old = viol.get(sig)
                        key = len(json.dumps(case))
                        if old is None or key < old[3]:
                            viol[sig] = (case, r, (old[2] if old else 0) + 1, key)
                        else:
                            viol[sig] = (old[0], old[1], old[2] + 1, old[3])
                if n % 512 == 0 and time.time() > deadline:
                    complete = False
                    break
            if not complete:
                pool.terminate()
                pool = multiprocessing.Pool(nproc, initializer=_init_worker)
            subrep.append(dict(name=name, size=n, completed=complete, wall_s=round(time.time() - st, 1)))
            sys.stderr.write('[%s] subspace %s: %d cases, %d violations so far, %.0fs\n' % (mod.ID, name, n, len(viol), time.time() - t0))
            sys.stderr.flush()
    finally:
        pool.terminate()
        pool.join()
        shutil.rmtree(os.path.join(SCRATCH_BASE, 'r%d' % os.getpid()), ignore_errors=True)

    # every violation is re-executed (determinism gate) before it is reported
    _init_worker()
    confirmed = {}
    for sig, (case, r, cnt, _) in sorted(viol.items()):
        r2 = mod.evaluate(case)
        if (not r2['ok']) and (r2['sig'] or 'unsigned') == sig:
            confirmed[sig] = (case, r2, cnt)
        elif not r2['ok']:
            confirmed[sig] = (case, r, cnt)
        else:
            harness.append((case, dict(outcome='NONDETERMINISTIC', detail='violation did not repeat: ' + r['detail'])))
    shutil.rmtree(os.path.join(SCRATCH_BASE, 'r%d' % os.getppid()), ignore_errors=True)

    exhaustive = all(s['completed'] for s in subrep)
    wall = time.time() - t0
    lines = []
    for sig, cnt in sorted(knownhit.items()):
        lines.append('KNOWN-FINDING: property=%s %s [signature %s, %d cases]' % (mod.ID, known[sig]['what'], sig, cnt))
    vlines = []
    for sig, (case, r, cnt) in sorted(confirmed.items()):
        d = write_replay(mod.ID, case, r)
        vlines.append('VIOLATION property=%s replay=%s' % (mod.ID, d))
        lines.append('  signature=%s cases=%d: %s' % (sig, cnt, r['detail'][:300]))
    cov = dict(
        states=max(len(states), 1), transitions=max(tot['transitions'], 1),
        traces_validated_against_impl=tot['validated'],
        evaluations=tot['evaluations'], distinct_nontrivial=len(nontriv_keys),
        rule=mod.RULE, samples=samples[:12] or [dict(note='no passing case')],
        exhaustive=exhaustive, subspaces=subrep,
        outcome_histogram=dict(outcomes.most_common(40)), distinct_outcomes=len(outcomes),
        known_findings_hit={k: v for k, v in knownhit.items()},
        violations=[dict(signature=s, cases=c, detail=r['detail'][:400]) for s, (cs, r, c) in confirmed.items()],
        harness_errors=len(harness),
        bounds=getattr(mod, 'BOUNDS', {}).get(tier, ''),
    )
    ev = dict(property_id=mod.ID, tier=tier, seed=seed, level=mod.LEVEL, coverage=cov,
              assumptions=list(getattr(mod, 'ASSUMPTIONS', [])), wall_s=round(wall, 2), violations=len(confirmed))
    evdir = os.environ.get('VERIF_EVIDENCE_DIR', os.path.join(ROOT, 'evidence'))
    os.makedirs(evdir, exist_ok=True)
    with open(os.path.join(evdir, mod.ID + '.json'), 'w') as f:
        json.dump(ev, f, indent=1, default=str)
    print('%s tier=%s evaluations=%d transitions=%d states=%d validated=%d distinct_outcomes=%d exhaustive=%s wall=%.1fs'
          % (mod.ID, tier, tot['evaluations'], tot['transitions'], len(states), tot['validated'], len(outcomes), exhaustive, wall))
    for s in subrep:
        print('  subspace %-34s size=%-8d completed=%s %.1fs' % (s['name'], s['size'], s['completed'], s['wall_s']))
    print('  outcomes: ' + ', '.join('%s=%d' % kv for kv in outcomes.most_common(12)))
    for l in lines:
        print(l)
    for l in vlines:
        print(l)
    if harness:
        print('HARNESS-ERROR %d cases, first: %s' % (len(harness), json.dumps(harness[0], default=str)[:1500]))
        if not confirmed:
            return 2
    return 1 if confirmed else 0
