"""Reference encoders for C14: declarative instruction tables typed in from the manufacturers' instruction set
summaries (not from the assembler's sources).  Each generator yields micro-case items:
    {'line': '<statement>', 'want': '<hex bytes>' | 'ERR', 'sig': '<isa>/<mnemonic>/<mode>'}
Operands are boundary values per field: 0, 1, limit-1, limit (and limit+1 / below-minimum, which must be REJECTED).
"""

# ------------------------------------------------------------------------------------------------ 6502

T6502 = {
    'ADC': {'imm': 0x69, 'zp': 0x65, 'zpx': 0x75, 'abs': 0x6D, 'absx': 0x7D, 'absy': 0x79, 'indx': 0x61, 'indy': 0x71},
    'AND': {'imm': 0x29, 'zp': 0x25, 'zpx': 0x35, 'abs': 0x2D, 'absx': 0x3D, 'absy': 0x39, 'indx': 0x21, 'indy': 0x31},
    'ASL': {'acc': 0x0A, 'zp': 0x06, 'zpx': 0x16, 'abs': 0x0E, 'absx': 0x1E},
    'BCC': {'rel': 0x90}, 'BCS': {'rel': 0xB0}, 'BEQ': {'rel': 0xF0}, 'BMI': {'rel': 0x30}, 'BNE': {'rel': 0xD0}, 'BPL': {'rel': 0x10}, 'BVC': {'rel': 0x50}, 'BVS': {'rel': 0x70},
    'BIT': {'zp': 0x24, 'abs': 0x2C}, 'BRK': {'imp': 0x00},
    'CLC': {'imp': 0x18}, 'CLD': {'imp': 0xD8}, 'CLI': {'imp': 0x58}, 'CLV': {'imp': 0xB8},
    'CMP': {'imm': 0xC9, 'zp': 0xC5, 'zpx': 0xD5, 'abs': 0xCD, 'absx': 0xDD, 'absy': 0xD9, 'indx': 0xC1, 'indy': 0xD1},
    'CPX': {'imm': 0xE0, 'zp': 0xE4, 'abs': 0xEC}, 'CPY': {'imm': 0xC0, 'zp': 0xC4, 'abs': 0xCC},
    'DEC': {'zp': 0xC6, 'zpx': 0xD6, 'abs': 0xCE, 'absx': 0xDE}, 'DEX': {'imp': 0xCA}, 'DEY': {'imp': 0x88},
    'EOR': {'imm': 0x49, 'zp': 0x45, 'zpx': 0x55, 'abs': 0x4D, 'absx': 0x5D, 'absy': 0x59, 'indx': 0x41, 'indy': 0x51},
    'INC': {'zp': 0xE6, 'zpx': 0xF6, 'abs': 0xEE, 'absx': 0xFE}, 'INX': {'imp': 0xE8}, 'INY': {'imp': 0xC8},
    'JMP': {'abs': 0x4C, 'ind': 0x6C}, 'JSR': {'abs': 0x20},
    'LDA': {'imm': 0xA9, 'zp': 0xA5, 'zpx': 0xB5, 'abs': 0xAD, 'absx': 0xBD, 'absy': 0xB9, 'indx': 0xA1, 'indy': 0xB1},
    'LDX': {'imm': 0xA2, 'zp': 0xA6, 'zpy': 0xB6, 'abs': 0xAE, 'absy': 0xBE},
    'LDY': {'imm': 0xA0, 'zp': 0xA4, 'zpx': 0xB4, 'abs': 0xAC, 'absx': 0xBC},
    'LSR': {'acc': 0x4A, 'zp': 0x46, 'zpx': 0x56, 'abs': 0x4E, 'absx': 0x5E}, 'NOP': {'imp': 0xEA},
    'ORA': {'imm': 0x09, 'zp': 0x05, 'zpx': 0x15, 'abs': 0x0D, 'absx': 0x1D, 'absy': 0x19, 'indx': 0x01, 'indy': 0x11},
    'PHA': {'imp': 0x48}, 'PHP': {'imp': 0x08}, 'PLA': {'imp': 0x68}, 'PLP': {'imp': 0x28},
    'ROL': {'acc': 0x2A, 'zp': 0x26, 'zpx': 0x36, 'abs': 0x2E, 'absx': 0x3E}, 'ROR': {'acc': 0x6A, 'zp': 0x66, 'zpx': 0x76, 'abs': 0x6E, 'absx': 0x7E},
    'RTI': {'imp': 0x40}, 'RTS': {'imp': 0x60},
    'SBC': {'imm': 0xE9, 'zp': 0xE5, 'zpx': 0xF5, 'abs': 0xED, 'absx': 0xFD, 'absy': 0xF9, 'indx': 0xE1, 'indy': 0xF1},
    'SEC': {'imp': 0x38}, 'SED': {'imp': 0xF8}, 'SEI': {'imp': 0x78},
    'STA': {'zp': 0x85, 'zpx': 0x95, 'abs': 0x8D, 'absx': 0x9D, 'absy': 0x99, 'indx': 0x81, 'indy': 0x91},
    'STX': {'zp': 0x86, 'zpy': 0x96, 'abs': 0x8E}, 'STY': {'zp': 0x84, 'zpx': 0x94, 'abs': 0x8C},
    'TAX': {'imp': 0xAA}, 'TAY': {'imp': 0xA8}, 'TSX': {'imp': 0xBA}, 'TXA': {'imp': 0x8A}, 'TXS': {'imp': 0x9A}, 'TYA': {'imp': 0x98},
}
assert sum(len(v) for v in T6502.values()) == 151


def it(line, want, sig, **kw):
    if want != 'ERR' and want and isinstance(want[0], list):
        enc = [bytes(x).hex() for x in want]        # several encodings the instruction set offers for the same operation
    else:
        enc = want if want == 'ERR' else bytes(want).hex()
    d = {'line': '\t' + line, 'want': enc, 'sig': sig}
    d.update(kw)
    return d


def forms_6502():
    for mn, modes in T6502.items():
        m = mn.lower()
        for md, op in modes.items():
            sig = '6502/%s/%s' % (mn, md)
            if md == 'imp':
                yield it(m, [op], sig)
            elif md == 'acc':
                yield it(m + ' a', [op], sig)
                yield it(m, [op], sig)
            elif md == 'imm':
                for v in (0, 1, 0x7f, 0x80, 0xff):
                    yield it('%s #%d' % (m, v), [op, v], sig)
                for v in (-1, -128):
                    yield it('%s #%d' % (m, v), [op, v & 0xff], sig)
                for v in (256, -129):
                    yield it('%s #%d' % (m, v), 'ERR', sig + '/range')
            elif md in ('zp', 'zpx', 'zpy', 'indx', 'indy'):
                for v in (0, 1, 0xfe, 0xff):
                    txt = {'zp': '$%02x', 'zpx': '$%02x,x', 'zpy': '$%02x,y', 'indx': '($%02x,x)', 'indy': '($%02x),y'}[md] % v
                    yield it('%s %s' % (m, txt), [op, v], sig)
                if md in ('indx', 'indy'):
                    for v in (0x100, 0x1234):
                        txt = {'indx': '($%x,x)', 'indy': '($%x),y'}[md] % v
                        yield it('%s %s' % (m, txt), 'ERR', sig + '/range')
            elif md in ('abs', 'absx', 'absy', 'ind'):
                for v in (0x100, 0x1234, 0xfffe, 0xffff):
                    if md == 'ind' and (v & 0xff) == 0xff:
                        continue      # NMOS page-wrap erratum: the assembler refuses JMP ($xxFF) by design
                    txt = {'abs': '$%04x', 'absx': '$%04x,x', 'absy': '$%04x,y', 'ind': '($%04x)'}[md] % v
                    yield it('%s %s' % (m, txt), [op, v & 0xff, v >> 8], sig)
                txt = {'abs': '$10000', 'absx': '$10000,x', 'absy': '$10000,y', 'ind': '($10000)'}[md]
                yield it('%s %s' % (m, txt), 'ERR', sig + '/range')
                zpalt = {'abs': 'zp', 'absx': 'zpx', 'absy': 'zpy'}.get(md)
                if zpalt and zpalt not in modes and mn not in ('JMP', 'JSR'):
                    txt = {'abs': '$12', 'absx': '$12,x', 'absy': '$12,y'}[md]
                    yield it('%s %s' % (m, txt), [op, 0x12, 0], sig + '/no-zp-form')
                if mn in ('JMP', 'JSR') and md == 'abs':
                    yield it('%s $12' % m, [op, 0x12, 0], sig)
            elif md == 'rel':
                for dist in (-128, -127, -126, -2, -1, 0, 1, 2, 125, 126, 127):
                    yield it('%s *+2+(%d)' % (m, dist), [op, dist & 0xff], sig)
                for dist in (-130, -129, 128, 129):
                    yield it('%s *+2+(%d)' % (m, dist), 'ERR', sig + '/range')
                # the same limits with the target given as a label, in front of and behind the branch
                for k, dist in enumerate((-128, -3, 0, 127, -129, 128, 200)):
                    at = 0x2000 + 0x400 * (op & 0x0f) + 0x4000 * (op >> 7) + 0x1000 * k // 8 * 0 + 0x20 * 0
                    at = 0x1000 + (op >> 5) * 0x1000 + k * 0x200 + 0x100
                    lab = 't%02x%d' % (op, k)
                    if dist < 0:
                        txt = 'org %d\n%s:\n\torg %d\n\t%s %s' % (at + 2 + dist, lab, at, m, lab)
                    else:
                        txt = 'org %d\n\t%s %s\n\torg %d\n%s:' % (at, m, lab, at + 2 + dist, lab)
                    yield it(txt, [op, dist & 0xff] if -128 <= dist <= 127 else 'ERR', sig + ('/label' if -128 <= dist <= 127 else '/label-range'), at=at)
    # illegal mode combinations adjacent to legal ones
    for line in ('sta #1', 'stx $12,x', 'ldx $12,x', 'ldy $12,y', 'jmp ($12),y', 'jsr ($1234)', 'inc a', 'bit #1', 'cpx $12,x', 'lda ($12),x', 'lda ($12,y)', 'asl #1', 'jmp #1'):
        yield it(line, 'ERR', '6502/illegal-mode')


# ------------------------------------------------------------------------------------------------ 8080

R8 = ['b', 'c', 'd', 'e', 'h', 'l', 'm', 'a']
RP = ['b', 'd', 'h', 'sp']
CC = ['nz', 'z', 'nc', 'c', 'po', 'pe', 'p', 'm']


def forms_8080():
    S = '8080/'
    for d, rd in enumerate(R8):
        for s, rs in enumerate(R8):
            if rd == 'm' and rs == 'm':
                yield it('mov m,m', 'ERR', S + 'MOV/m,m')
                continue
            yield it('mov %s,%s' % (rd, rs), [0x40 | d << 3 | s], S + 'MOV')
        for v in (0, 1, 0x7f, 0xff):
            yield it('mvi %s,%d' % (rd, v), [0x06 | d << 3, v], S + 'MVI')
        yield it('mvi %s,-1' % rd, [0x06 | d << 3, 0xff], S + 'MVI')
        yield it('mvi %s,256' % rd, 'ERR', S + 'MVI/range')
        yield it('inr %s' % rd, [0x04 | d << 3], S + 'INR')
        yield it('dcr %s' % rd, [0x05 | d << 3], S + 'DCR')
        for k, mn in enumerate(('add', 'adc', 'sub', 'sbb', 'ana', 'xra', 'ora', 'cmp')):
            yield it('%s %s' % (mn, rd), [0x80 | k << 3 | d], S + mn.upper())
    for k, mn in enumerate(('adi', 'aci', 'sui', 'sbi', 'ani', 'xri', 'ori', 'cpi')):
        for v in (0, 1, 0x80, 0xff):
            yield it('%s %d' % (mn, v), [0xC6 | k << 3, v], S + mn.upper())
        yield it('%s 256' % mn, 'ERR', S + mn.upper() + '/range')
        yield it('%s -129' % mn, 'ERR', S + mn.upper() + '/range')
    for p, rp in enumerate(RP):
        for v in (0, 1, 0x1234, 0xffff):
            yield it('lxi %s,%d' % (rp, v), [0x01 | p << 4, v & 0xff, v >> 8], S + 'LXI')
        yield it('lxi %s,65536' % rp, 'ERR', S + 'LXI/range')
        yield it('inx %s' % rp, [0x03 | p << 4], S + 'INX')
        yield it('dcx %s' % rp, [0x0B | p << 4], S + 'DCX')
        yield it('dad %s' % rp, [0x09 | p << 4], S + 'DAD')
    for p, rp in enumerate(('b', 'd', 'h', 'psw')):
        yield it('push %s' % rp, [0xC5 | p << 4], S + 'PUSH')
        yield it('pop %s' % rp, [0xC1 | p << 4], S + 'POP')
    yield it('push sp', 'ERR', S + 'PUSH/sp')
    yield it('pop sp', 'ERR', S + 'POP/sp')
    yield it('lxi psw,1', 'ERR', S + 'LXI/psw')
    for mn, op in (('lda', 0x3A), ('sta', 0x32), ('lhld', 0x2A), ('shld', 0x22), ('jmp', 0xC3), ('call', 0xCD)):
        for v in (0, 1, 0x1234, 0xffff):
            yield it('%s %d' % (mn, v), [op, v & 0xff, v >> 8], S + mn.upper())
        yield it('%s 65536' % mn, 'ERR', S + mn.upper() + '/range')
    for c, cc in enumerate(CC):
        for v in (0, 0x1234, 0xffff):
            yield it('j%s %d' % (cc, v), [0xC2 | c << 3, v & 0xff, v >> 8], S + 'Jcc')
            yield it('c%s %d' % (cc, v), [0xC4 | c << 3, v & 0xff, v >> 8], S + 'Ccc')
        yield it('r%s' % cc, [0xC0 | c << 3], S + 'Rcc')
        yield it('j%s 65536' % cc, 'ERR', S + 'Jcc/range')
    for n in range(8):
        yield it('rst %d' % n, [0xC7 | n << 3], S + 'RST')
    yield it('rst 8', 'ERR', S + 'RST/range')
    for rp, op in (('b', 0x0A), ('d', 0x1A)):
        yield it('ldax %s' % rp, [op], S + 'LDAX')
        yield it('stax %s' % rp, [op - 8], S + 'STAX')
    yield it('stax sp', 'ERR', S + 'STAX/sp')
    for mn, op in (('xchg', 0xEB), ('daa', 0x27), ('rlc', 0x07), ('rrc', 0x0F), ('ral', 0x17), ('rar', 0x1F), ('cma', 0x2F), ('cmc', 0x3F), ('stc', 0x37), ('ret', 0xC9),
                   ('pchl', 0xE9), ('xthl', 0xE3), ('sphl', 0xF9), ('ei', 0xFB), ('di', 0xF3), ('hlt', 0x76), ('nop', 0x00)):
        yield it(mn, [op], S + mn.upper())
    for mn, op in (('in', 0xDB), ('out', 0xD3)):
        for v in (0, 1, 0xff):
            yield it('%s %d' % (mn, v), [op, v], S + mn.upper())
        yield it('%s 256' % mn, 'ERR', S + mn.upper() + '/range')


def forms_8085():
    yield it('rim', [0x20], '8085/RIM')
    yield it('sim', [0x30], '8085/SIM')


# ------------------------------------------------------------------------------------------------ 4004

def forms_4004():
    S = '4004/'
    yield it('nop', [0x00], S + 'NOP')
    for r in range(16):
        for mn, op in (('inc', 0x60), ('add', 0x80), ('sub', 0x90), ('ld', 0xA0), ('xch', 0xB0)):
            yield it('%s r%d' % (mn, r), [op | r], S + mn.upper())
    yield it('inc r16', 'ERR', S + 'INC/range')
    for p in range(8):
        for v in (0, 1, 0xff):
            yield it('fim r%dp,%d' % (p, v), [0x20 | p << 1, v], S + 'FIM')
        yield it('fim r%dp,256' % p, 'ERR', S + 'FIM/range')
        yield it('src r%dp' % p, [0x21 | p << 1], S + 'SRC')
        yield it('fin r%dp' % p, [0x30 | p << 1], S + 'FIN')
        yield it('jin r%dp' % p, [0x31 | p << 1], S + 'JIN')
    for d in range(16):
        yield it('bbl %d' % d, [0xC0 | d], S + 'BBL')
        yield it('ldm %d' % d, [0xD0 | d], S + 'LDM')
    yield it('bbl 16', 'ERR', S + 'BBL/range')
    yield it('ldm 16', 'ERR', S + 'LDM/range')
    for k, mn in enumerate(('wrm', 'wmp', 'wrr', 'wpm', 'wr0', 'wr1', 'wr2', 'wr3', 'sbm', 'rdm', 'rdr', 'adm', 'rd0', 'rd1', 'rd2', 'rd3')):
        yield it(mn, [0xE0 | k], S + mn.upper())
    for k, mn in enumerate(('clb', 'clc', 'iac', 'cmc', 'cma', 'ral', 'rar', 'tcc', 'dac', 'tcs', 'stc', 'daa', 'kbp', 'dcl')):
        yield it(mn, [0xF0 | k], S + mn.upper())
    for a in (0, 1, 0x123, 0xfff):
        yield it('jun %d' % a, [0x40 | a >> 8, a & 0xff], S + 'JUN')
        yield it('jms %d' % a, [0x50 | a >> 8, a & 0xff], S + 'JMS')
    yield it('jun 4096', 'ERR', S + 'JUN/range')
    yield it('jms 4096', 'ERR', S + 'JMS/range')
    # page-relative: JCN / ISZ at the start, middle and the last bytes of a ROM page; the target must lie in the page of the
    # instruction FOLLOWING the two-byte instruction (the program counter has already advanced when the jump is taken)
    for at in (0x000, 0x010, 0x0fd, 0x0fe, 0x0ff, 0x1fe, 0xefe):
        nxt = (at + 2) & 0xf00
        for tgt in (nxt, nxt + 5, nxt + 0xff, (nxt + 0x100) & 0xfff, (nxt - 0x100) & 0xfff, at & 0xf00):
            ok = (tgt & 0xf00) == nxt
            for cond, cn in ((4, 'z'), (12, 'nz'), (2, 'c'), (10, 'nc'), (1, 't'), (9, 'nt')):
                if cond not in (4, 10) and at not in (0x0fe, 0x010):
                    continue
                yield it('org %d\n\tjcn %s,%d' % (at, cn, tgt), [0x10 | cond, tgt & 0xff] if ok else 'ERR', S + 'JCN/page', at=at)
            yield it('org %d\n\tisz r5,%d' % (at, tgt), [0x75, tgt & 0xff] if ok else 'ERR', S + 'ISZ/page', at=at)
    for cond in range(16):
        yield it('org 64\n\tjcn %d,70' % cond, [0x10 | cond, 70], S + 'JCN/numeric-condition', at=64)


# ------------------------------------------------------------------------------------------------ PIC16C84

def forms_pic():
    S = 'pic16c84/'
    byteops = {'addwf': 0x0700, 'andwf': 0x0500, 'comf': 0x0900, 'decf': 0x0300, 'decfsz': 0x0B00, 'incf': 0x0A00, 'incfsz': 0x0F00, 'iorwf': 0x0400, 'movf': 0x0800,
               'rlf': 0x0D00, 'rrf': 0x0C00, 'subwf': 0x0200, 'swapf': 0x0E00, 'xorwf': 0x0600}

    def w(v):
        return [v & 0xff, v >> 8]
    for mn, op in byteops.items():
        for f in (0, 1, 0x4f, 0x7f):
            for dtxt, d in ((',w', 0), (',f', 1), (',0', 0), (',1', 1)):     # the default for an omitted destination is assembler convention, not ISA
                yield it('%s %d%s' % (mn, f, dtxt), w(op | d << 7 | f), S + mn.upper())
        yield it('%s 512,f' % mn, 'ERR', S + mn.upper() + '/range')
        yield it('%s 1,2' % mn, 'ERR', S + mn.upper() + '/dest')
    for f in (0, 1, 0x7f):
        yield it('clrf %d' % f, w(0x0180 | f), S + 'CLRF')
        yield it('movwf %d' % f, w(0x0080 | f), S + 'MOVWF')
    for mn, op in (('clrw', 0x0100), ('nop', 0x0000), ('clrwdt', 0x0064), ('retfie', 0x0009), ('return', 0x0008), ('sleep', 0x0063)):
        yield it(mn, w(op), S + mn.upper())
    for mn, op in (('bcf', 0x1000), ('bsf', 0x1400), ('btfsc', 0x1800), ('btfss', 0x1C00)):
        for f in (0, 0x7f):
            for b in range(8):
                yield it('%s %d,%d' % (mn, f, b), w(op | b << 7 | f), S + mn.upper())
        yield it('%s 1,8' % mn, 'ERR', S + mn.upper() + '/bit-range')
        yield it('%s 512,1' % mn, 'ERR', S + mn.upper() + '/range')
    for mn, op in (('addlw', 0x3E00), ('andlw', 0x3900), ('iorlw', 0x3800), ('movlw', 0x3000), ('retlw', 0x3400), ('sublw', 0x3C00), ('xorlw', 0x3A00)):
        for k in (0, 1, 0x80, 0xff):
            yield it('%s %d' % (mn, k), w(op | k), S + mn.upper())
        yield it('%s 256' % mn, 'ERR', S + mn.upper() + '/range')
    for mn, op in (('call', 0x2000), ('goto', 0x2800)):
        for k in (0, 1, 0x3ff):
            yield it('%s %d' % (mn, k), w(op | k), S + mn.upper())
        yield it('%s 8192' % mn, 'ERR', S + mn.upper() + '/range')


# ------------------------------------------------------------------------------------------------ Z80 (documented, main/CB/ED/DD/FD subsets)

ZR = ['b', 'c', 'd', 'e', 'h', 'l', '(hl)', 'a']


def forms_z80():
    S = 'z80/'
    for d, rd in enumerate(ZR):
        for s, rs in enumerate(ZR):
            if d == 6 and s == 6:
                continue
            yield it('ld %s,%s' % (rd, rs), [0x40 | d << 3 | s], S + 'LD r,r')
        for v in (0, 1, 0xff):
            yield it('ld %s,%d' % (rd, v), [0x06 | d << 3, v], S + 'LD r,n')
        yield it('ld %s,256' % rd, 'ERR', S + 'LD r,n/range')
        yield it('inc %s' % rd, [0x04 | d << 3], S + 'INC r')
        yield it('dec %s' % rd, [0x05 | d << 3], S + 'DEC r')
        for k, mn in enumerate(('add a,', 'adc a,', 'sub ', 'sbc a,', 'and ', 'xor ', 'or ', 'cp ')):
            yield it('%s%s' % (mn, rd), [0x80 | k << 3 | d], S + mn.split()[0].upper() + ' r')
        for k, mn in enumerate(('rlc', 'rrc', 'rl', 'rr', 'sla', 'sra', None, 'srl')):
            if mn:
                yield it('%s %s' % (mn, rd), [0xCB, k << 3 | d], S + mn.upper())
        for b in range(8):
            yield it('bit %d,%s' % (b, rd), [0xCB, 0x40 | b << 3 | d], S + 'BIT')
            yield it('res %d,%s' % (b, rd), [0xCB, 0x80 | b << 3 | d], S + 'RES')
            yield it('set %d,%s' % (b, rd), [0xCB, 0xC0 | b << 3 | d], S + 'SET')
        yield it('bit 8,%s' % rd, 'ERR', S + 'BIT/range')
        if d != 6:
            for ix, pre in (('ix', 0xDD), ('iy', 0xFD)):
                for disp in (0, 1, 127, -1, -128):
                    yield it('ld %s,(%s%+d)' % (rd, ix, disp), [pre, 0x46 | d << 3, disp & 0xff], S + 'LD r,(ix+d)')
                    yield it('ld (%s%+d),%s' % (ix, disp, rd), [pre, 0x70 | d, disp & 0xff], S + 'LD (ix+d),r')
                yield it('ld %s,(%s+128)' % (rd, ix), 'ERR', S + 'LD r,(ix+d)/range')
                yield it('ld %s,(%s-129)' % (rd, ix), 'ERR', S + 'LD r,(ix+d)/range')
    for k, mn in enumerate(('add a,', 'adc a,', 'sub ', 'sbc a,', 'and ', 'xor ', 'or ', 'cp ')):
        for v in (0, 1, 0xff):
            yield it('%s%d' % (mn, v), [0xC6 | k << 3, v], S + mn.split()[0].upper() + ' n')
    for p, rp in enumerate(('bc', 'de', 'hl', 'sp')):
        for v in (0, 0x1234, 0xffff):
            yield it('ld %s,%d' % (rp, v), [0x01 | p << 4, v & 0xff, v >> 8], S + 'LD rp,nn')
        yield it('ld %s,65536' % rp, 'ERR', S + 'LD rp,nn/range')
        yield it('inc %s' % rp, [0x03 | p << 4], S + 'INC rp')
        yield it('dec %s' % rp, [0x0B | p << 4], S + 'DEC rp')
        yield it('add hl,%s' % rp, [0x09 | p << 4], S + 'ADD hl,rp')
        yield it('adc hl,%s' % rp, [0xED, 0x4A | p << 4], S + 'ADC hl,rp')
        yield it('sbc hl,%s' % rp, [0xED, 0x42 | p << 4], S + 'SBC hl,rp')
    for p, rp in enumerate(('bc', 'de', 'hl', 'af')):
        yield it('push %s' % rp, [0xC5 | p << 4], S + 'PUSH')
        yield it('pop %s' % rp, [0xC1 | p << 4], S + 'POP')
    for c, cc in enumerate(('nz', 'z', 'nc', 'c', 'po', 'pe', 'p', 'm')):
        for v in (0, 0x1234, 0xffff):
            yield it('jp %s,%d' % (cc, v), [0xC2 | c << 3, v & 0xff, v >> 8], S + 'JP cc')
            yield it('call %s,%d' % (cc, v), [0xC4 | c << 3, v & 0xff, v >> 8], S + 'CALL cc')
        yield it('ret %s' % cc, [0xC0 | c << 3], S + 'RET cc')
    for dist in (-128, -127, -2, -1, 0, 1, 126, 127):
        yield it('jr $+2+(%d)' % dist, [0x18, dist & 0xff], S + 'JR')
        yield it('djnz $+2+(%d)' % dist, [0x10, dist & 0xff], S + 'DJNZ')
        for c, cc in enumerate(('nz', 'z', 'nc', 'c')):
            yield it('jr %s,$+2+(%d)' % (cc, dist), [0x20 | c << 3, dist & 0xff], S + 'JR cc')
    for dist in (-130, -129, 128, 129):
        yield it('jr $+2+(%d)' % dist, 'ERR', S + 'JR/range')
        yield it('djnz $+2+(%d)' % dist, 'ERR', S + 'DJNZ/range')
    yield it('jr po,$', 'ERR', S + 'JR/cond')
    for mn, ops in (('nop', [0]), ('halt', [0x76]), ('di', [0xF3]), ('ei', [0xFB]), ('exx', [0xD9]), ('daa', [0x27]), ('cpl', [0x2F]), ('ccf', [0x3F]), ('scf', [0x37]),
                    ('rlca', [0x07]), ('rrca', [0x0F]), ('rla', [0x17]), ('rra', [0x1F]), ('ret', [0xC9]), ('reti', [0xED, 0x4D]), ('retn', [0xED, 0x45]), ('neg', [0xED, 0x44]),
                    ('ldi', [0xED, 0xA0]), ('ldir', [0xED, 0xB0]), ('ldd', [0xED, 0xA8]), ('lddr', [0xED, 0xB8]), ('cpi', [0xED, 0xA1]), ('cpir', [0xED, 0xB1]),
                    ('ex de,hl', [0xEB]), ("ex af,af'", [0x08]), ('ex (sp),hl', [0xE3]), ('jp (hl)', [0xE9]), ('ld sp,hl', [0xF9]), ('im 0', [0xED, 0x46]), ('im 1', [0xED, 0x56]),
                    ('im 2', [0xED, 0x5E]), ('rld', [0xED, 0x6F]), ('rrd', [0xED, 0x67]), ('ld a,(bc)', [0x0A]), ('ld a,(de)', [0x1A]), ('ld (bc),a', [0x02]), ('ld (de),a', [0x12]),
                    ('ld a,i', [0xED, 0x57]), ('ld i,a', [0xED, 0x47]), ('ld a,r', [0xED, 0x5F]), ('ld r,a', [0xED, 0x4F]), ('jp (ix)', [0xDD, 0xE9]), ('jp (iy)', [0xFD, 0xE9]),
                    ('push ix', [0xDD, 0xE5]), ('pop iy', [0xFD, 0xE1]), ('add ix,bc', [0xDD, 0x09]), ('add iy,sp', [0xFD, 0x39]), ('inc ix', [0xDD, 0x23]), ('dec iy', [0xFD, 0x2B])):
        yield it(mn, ops, S + mn.split()[0].upper())
    for v in (0, 0x1234, 0xffff):
        yield it('ld a,(%d)' % v, [0x3A, v & 0xff, v >> 8], S + 'LD a,(nn)')
        yield it('ld (%d),a' % v, [0x32, v & 0xff, v >> 8], S + 'LD (nn),a')
        yield it('ld hl,(%d)' % v, [0x2A, v & 0xff, v >> 8], S + 'LD hl,(nn)')
        yield it('ld (%d),hl' % v, [0x22, v & 0xff, v >> 8], S + 'LD (nn),hl')
        yield it('ld bc,(%d)' % v, [0xED, 0x4B, v & 0xff, v >> 8], S + 'LD rp,(nn)')
        yield it('ld (%d),de' % v, [0xED, 0x53, v & 0xff, v >> 8], S + 'LD (nn),rp')
        yield it('ld ix,%d' % v, [0xDD, 0x21, v & 0xff, v >> 8], S + 'LD ix,nn')
        yield it('jp %d' % v, [0xC3, v & 0xff, v >> 8], S + 'JP')
        yield it('call %d' % v, [0xCD, v & 0xff, v >> 8], S + 'CALL')
    for n in range(8):
        yield it('rst %d' % (n * 8), [0xC7 | n << 3], S + 'RST')
    yield it('rst 7', 'ERR', S + 'RST/value')
    for v in (0, 0xff):
        yield it('in a,(%d)' % v, [0xDB, v], S + 'IN a,(n)')
        yield it('out (%d),a' % v, [0xD3, v], S + 'OUT (n),a')
    for d, rd in enumerate(('b', 'c', 'd', 'e', 'h', 'l', None, 'a')):
        if rd:
            yield it('in %s,(c)' % rd, [0xED, 0x40 | d << 3], S + 'IN r,(c)')
            yield it('out (c),%s' % rd, [0xED, 0x41 | d << 3], S + 'OUT (c),r')


# ------------------------------------------------------------------------------------------------ AVR (classic core, AT90S8515)

def forms_avr():
    S = 'avr/'

    def w(v):
        return [v & 0xff, v >> 8]
    two = {'add': 0x0C00, 'adc': 0x1C00, 'sub': 0x1800, 'sbc': 0x0800, 'and': 0x2000, 'or': 0x2800, 'eor': 0x2400, 'cp': 0x1400, 'cpc': 0x0400, 'cpse': 0x1000, 'mov': 0x2C00}
    for mn, op in two.items():
        for d in (0, 1, 15, 16, 31):
            for r in (0, 15, 16, 31):
                yield it('%s r%d,r%d' % (mn, d, r), w(op | (r & 0x10) << 5 | d << 4 | (r & 15)), S + mn.upper())
        yield it('%s r32,r0' % mn, 'ERR', S + mn.upper() + '/reg')
    imm = {'subi': 0x5000, 'sbci': 0x4000, 'andi': 0x7000, 'ori': 0x6000, 'cpi': 0x3000, 'ldi': 0xE000}
    for mn, op in imm.items():
        for d in (16, 17, 31):
            for k in (0, 1, 0x80, 0xff):
                yield it('%s r%d,%d' % (mn, d, k), w(op | (k & 0xf0) << 4 | (d - 16) << 4 | (k & 15)), S + mn.upper())
        yield it('%s r15,1' % mn, 'ERR', S + mn.upper() + '/reg')
        yield it('%s r16,256' % mn, 'ERR', S + mn.upper() + '/range')
    one = {'com': 0x9400, 'neg': 0x9401, 'swap': 0x9402, 'inc': 0x9403, 'asr': 0x9405, 'lsr': 0x9406, 'ror': 0x9407, 'dec': 0x940A, 'push': 0x920F, 'pop': 0x900F}
    for mn, op in one.items():
        for d in (0, 1, 16, 31):
            yield it('%s r%d' % (mn, d), w(op | d << 4), S + mn.upper())
    for mn, op in (('adiw', 0x9600), ('sbiw', 0x9700)):
        for d in (24, 26, 28, 30):
            for k in (0, 1, 63):
                yield it('%s r%d,%d' % (mn, d, k), w(op | (k & 0x30) << 2 | ((d - 24) // 2) << 4 | (k & 15)), S + mn.upper())
        yield it('%s r24,64' % mn, 'ERR', S + mn.upper() + '/range')
        yield it('%s r22,1' % mn, 'ERR', S + mn.upper() + '/reg')
    for dist in (-2048, -2047, -1, 0, 1, 2047):
        # placed in the middle of the 4K-word code space so that both extremes stay inside it
        yield it('org 2047\n\trjmp *+1+(%d)' % dist, w(0xC000 | (dist & 0xfff)), S + 'RJMP', at=2047)
        yield it('org 2047\n\trcall *+1+(%d)' % dist, w(0xD000 | (dist & 0xfff)), S + 'RCALL', at=2047)
    for dist in (-2050, -2049, 2048, 2049):
        yield it('org 2047\n\trjmp *+1+(%d)' % dist, 'ERR', S + 'RJMP/range', at=2047)
    for dist in (-64, -63, -1, 0, 1, 63):
        for mn, bit, clr in (('breq', 1, 0), ('brne', 1, 1), ('brcs', 0, 0), ('brcc', 0, 1), ('brmi', 2, 0), ('brpl', 2, 1), ('brge', 4, 1), ('brlt', 4, 0)):
            yield it('org 2100\n\t%s *+1+(%d)' % (mn, dist), w(0xF000 | clr << 10 | (dist & 0x7f) << 3 | bit), S + mn.upper(), at=2100)
    for dist in (-66, -65, 64, 65):
        yield it('org 2100\n\tbreq *+1+(%d)' % dist, 'ERR', S + 'BREQ/range', at=2100)
    for mn, op in (('nop', 0), ('ret', 0x9508), ('reti', 0x9518), ('sleep', 0x9588), ('wdr', 0x95A8), ('ijmp', 0x9409), ('icall', 0x9509), ('sec', 0x9408), ('clc', 0x9488),
                   ('sei', 0x9478), ('cli', 0x94F8), ('lpm', 0x95C8)):
        yield it(mn, w(op), S + mn.upper())
    for a in (0, 1, 31, 63):
        for d in (0, 31):
            yield it('in r%d,%d' % (d, a), w(0xB000 | (a & 0x30) << 5 | d << 4 | (a & 15)), S + 'IN')
            yield it('out %d,r%d' % (a, d), w(0xB800 | (a & 0x30) << 5 | d << 4 | (a & 15)), S + 'OUT')
    yield it('in r0,64', 'ERR', S + 'IN/range')
    for a in (0, 31):
        for b in (0, 7):
            yield it('sbi %d,%d' % (a, b), w(0x9A00 | a << 3 | b), S + 'SBI')
            yield it('cbi %d,%d' % (a, b), w(0x9800 | a << 3 | b), S + 'CBI')
            yield it('sbic %d,%d' % (a, b), w(0x9900 | a << 3 | b), S + 'SBIC')
            yield it('sbis %d,%d' % (a, b), w(0x9B00 | a << 3 | b), S + 'SBIS')
    yield it('sbi 32,0', 'ERR', S + 'SBI/range')
    yield it('sbi 0,8', 'ERR', S + 'SBI/bit-range')
    # the same operands given as symbols typed by PORT (the register include files define the I/O registers this way):
    # the four bit instructions reach only I/O addresses 0..31, IN/OUT reach 0..63
    for mn, op in (('sbi', 0x9A00), ('cbi', 0x9800), ('sbic', 0x9900), ('sbis', 0x9B00)):
        for a in (0, 31):
            yield it('%s p%d,7' % (mn, a), w(op | a << 3 | 7), S + mn.upper() + '/port-symbol')
        for a in (32, 57, 63):
            yield it('%s p%d,1' % (mn, a), 'ERR', S + mn.upper() + '/port-symbol-range')
    for a in (0, 31, 32, 63):
        yield it('in r1,p%d' % a, w(0xB000 | (a & 0x30) << 5 | 1 << 4 | (a & 15)), S + 'IN/port-symbol')
        yield it('out p%d,r1' % a, w(0xB800 | (a & 0x30) << 5 | 1 << 4 | (a & 15)), S + 'OUT/port-symbol')
    for d in (0, 31):
        for b in (0, 7):
            yield it('bst r%d,%d' % (d, b), w(0xFA00 | d << 4 | b), S + 'BST')
            yield it('bld r%d,%d' % (d, b), w(0xF800 | d << 4 | b), S + 'BLD')
            yield it('sbrc r%d,%d' % (d, b), w(0xFC00 | d << 4 | b), S + 'SBRC')
            yield it('sbrs r%d,%d' % (d, b), w(0xFE00 | d << 4 | b), S + 'SBRS')
        for q in (0, 1, 63):
            yield it('ldd r%d,y+%d' % (d, q), w(0x8008 | (q & 0x20) << 8 | (q & 0x18) << 7 | d << 4 | (q & 7)), S + 'LDD Y')
            yield it('ldd r%d,z+%d' % (d, q), w(0x8000 | (q & 0x20) << 8 | (q & 0x18) << 7 | d << 4 | (q & 7)), S + 'LDD Z')
            yield it('std y+%d,r%d' % (q, d), w(0x8208 | (q & 0x20) << 8 | (q & 0x18) << 7 | d << 4 | (q & 7)), S + 'STD Y')
        yield it('ldd r%d,y+64' % d, 'ERR', S + 'LDD/range')
        for txt, op in (('x', 0x900C), ('x+', 0x900D), ('-x', 0x900E), ('y+', 0x9009), ('-y', 0x900A), ('z+', 0x9001), ('-z', 0x9002)):
            yield it('ld r%d,%s' % (d, txt), w(op | d << 4), S + 'LD')
            yield it('st %s,r%d' % (txt, d), w(op | 0x0200 | d << 4), S + 'ST')
        for k in (0, 0x60, 0xffff):
            yield it('lds r%d,%d' % (d, k), w(0x9000 | d << 4) + w(k), S + 'LDS')
            yield it('sts %d,r%d' % (k, d), w(0x9200 | d << 4) + w(k), S + 'STS')


# ------------------------------------------------------------------------------------------------ MSP430 jumps

def forms_msp430_jumps():
    """the eight conditional/unconditional jumps: opcode | 10-bit signed word offset, target = address of the jump + 2 + 2*offset,
    i.e. targets from PC+2-1024 to PC+2+1022 in steps of 2 (SLAU049, 'Jump instructions')"""
    S = 'msp430/'

    def w(v):
        return [v & 0xff, v >> 8]
    ops = {'jne': 0x2000, 'jnz': 0x2000, 'jeq': 0x2400, 'jz': 0x2400, 'jnc': 0x2800, 'jlo': 0x2800, 'jc': 0x2C00, 'jhs': 0x2C00, 'jn': 0x3000, 'jge': 0x3400,
           'jl': 0x3800, 'jmp': 0x3C00}
    for mn, op in ops.items():
        for d in (-1024, -1022, -4, -2, 0, 2, 4, 1020, 1022):
            yield it('org 16384\n\t%s $+2+(%d)' % (mn, d), w(op | ((d // 2) & 0x3ff)), S + mn.upper(), at=16384)
            yield it('org 16384\n\t%s lbl\n\torg 16384+2+(%d)\nlbl:' % (mn, d), w(op | ((d // 2) & 0x3ff)), S + mn.upper() + '/label', at=16384)
        for d in (-1028, -1026, 1024, 1026, -1, 1, 1023, -1023):
            yield it('org 16384\n\t%s $+2+(%d)' % (mn, d), 'ERR', S + mn.upper() + '/range', at=16384)


def forms_msp430():
    """MSP430 (CPU, not CPUX) core instruction set, SLAU049: format I (double operand), format II (single operand), all seven
    source addressing modes incl. the constant generators R2/R3, four destination modes, byte and word forms, and the emulated
    mnemonics that are defined as one core instruction"""
    S = 'msp430/'

    def w(v):
        return [v & 0xff, (v >> 8) & 0xff]
    CG = {0: (3, 0), 1: (3, 1), 2: (3, 2), -1: (3, 3), 4: (2, 2), 8: (2, 3)}
    BASE = 0x4000

    def src(kind, at):
        """-> (text, reg, As, extension words or None); `at` = address of the extension word if one follows"""
        if kind[0] == 'reg':
            return 'r%d' % kind[1], kind[1], 0, []
        if kind[0] == 'idx':
            return '%d(r%d)' % (kind[2], kind[1]), kind[1], 1, [kind[2] & 0xffff]
        if kind[0] == 'abs':
            return '&%d' % kind[1], 2, 1, [kind[1]]
        if kind[0] == 'sym':
            return '%d' % kind[1], 0, 1, [(kind[1] - at) & 0xffff]
        if kind[0] == 'ind':
            return '@r%d' % kind[1], kind[1], 2, []
        if kind[0] == 'inc':
            return '@r%d+' % kind[1], kind[1], 3, []
        if kind[0] == 'imm':
            v = kind[1]
            if v in CG:
                return '#%d' % v, CG[v][0], CG[v][1], []
            return '#%d' % v, 0, 3, [v & 0xffff]
    SRCS = [('reg', 4), ('reg', 15), ('idx', 5, 2), ('idx', 6, -2), ('idx', 1, 0x100), ('abs', 0x200), ('abs', 0xfffe), ('sym', 0x4100), ('sym', 0x3ff0), ('ind', 7),
            ('inc', 8), ('inc', 1), ('imm', 0), ('imm', 1), ('imm', 2), ('imm', -1), ('imm', 4), ('imm', 8), ('imm', 3), ('imm', 0x1234), ('imm', -2), ('imm', 0x7f)]
    DSTS = [('reg', 5), ('reg', 15), ('idx', 9, 4), ('idx', 10, -6), ('abs', 0x220), ('sym', 0x4200)]
    two = {'mov': 4, 'add': 5, 'addc': 6, 'subc': 7, 'sub': 8, 'cmp': 9, 'dadd': 10, 'bit': 11, 'bic': 12, 'bis': 13, 'xor': 14, 'and': 15}
    for mn, op in two.items():
        for bw, suf in ((0, ''), (0, '.w'), (1, '.b')):
            for sk in (SRCS if mn in ('mov', 'add', 'cmp', 'and') else SRCS[::3]):
                for dk in (DSTS if mn in ('mov', 'xor') else DSTS[::2]):
                    if bw and sk[0] == 'imm' and not -128 <= sk[1] <= 255:
                        continue
                    st, sr, As, sx = src(sk, BASE + 2)
                    dt, dr, Ad, dx = src(dk, BASE + 2 + 2 * len(sx))
                    code = w(op << 12 | sr << 8 | Ad << 7 | bw << 6 | As << 4 | dr)
                    for x in sx + dx:
                        code += w(x)
                    yield it('org %d\n\t%s%s %s,%s' % (BASE, mn, suf, st, dt), code, S + mn.upper() + '/' + sk[0] + '-' + dk[0], at=BASE)
        yield it('%s r4' % mn, 'ERR', S + mn.upper() + '/operand-count')
        yield it('%s r4,#1' % mn, 'ERR', S + mn.upper() + '/immediate-destination')
        # (@Rn as a destination is accepted as the equivalent 0(Rn): the instruction set has no indirect destination mode)
        yield it('%s r4,@r5' % mn, w(op << 12 | 4 << 8 | 1 << 7 | 5) + w(0), S + mn.upper() + '/indirect-destination-as-indexed')
        yield it('%s r4,@r5+' % mn, 'ERR', S + mn.upper() + '/autoincrement-destination')
        yield it('%s r16,r4' % mn, 'ERR', S + mn.upper() + '/register')
    one = {'rrc': (0x1000, 1), 'swpb': (0x1080, 0), 'rra': (0x1100, 1), 'sxt': (0x1180, 0), 'push': (0x1200, 1), 'call': (0x1280, 0)}
    for mn, (op, hasb) in one.items():
        for bw, suf in ((0, ''), (1, '.b')) if hasb else ((0, ''),):
            for sk in SRCS:
                if sk[0] == 'imm' and (mn not in ('push', 'call') or sk[1] in (4, 8)):
                    continue          # (PUSH #4/#8: the CPU4 erratum makes assemblers avoid the constant generator; not pinned down)
                if bw and sk[0] == 'imm' and not -128 <= sk[1] <= 255:
                    continue
                st, sr, As, sx = src(sk, BASE + 2)
                code = w(op | bw << 6 | As << 4 | sr)
                for x in sx:
                    code += w(x)
                yield it('org %d\n\t%s%s %s' % (BASE, mn, suf, st), code, S + mn.upper() + '/' + sk[0], at=BASE)
    yield it('reti', w(0x1300), S + 'RETI')
    yield it('swpb.b r4', 'ERR', S + 'SWPB/byte')
    # emulated mnemonics = one core instruction each
    emu = [('nop', 0x4303, []), ('ret', 0x4130, []), ('clrc', 0xC312, []), ('setc', 0xD312, []), ('clrz', 0xC322, []), ('setz', 0xD322, []), ('clrn', 0xC222, []),
           ('setn', 0xD222, []), ('dint', 0xC232, []), ('eint', 0xD232, []), ('pop r5', 0x4135, []), ('br r5', 0x4500, []), ('clr r5', 0x4305, []), ('inc r5', 0x5315, []),
           ('incd r5', 0x5325, []), ('dec r5', 0x8315, []), ('decd r5', 0x8325, []), ('tst r5', 0x9305, []), ('inv r5', 0xE335, []), ('rla r5', 0x5505, []),
           ('rlc r5', 0x6505, []), ('adc r5', 0x6305, []), ('sbc r5', 0x7305, []), ('dadc r5', 0xA305, []), ('clr.b r5', 0x4345, []), ('inc.b r5', 0x5355, []),
           ('tst.b r5', 0x9345, []), ('br #4660', 0x4030, [0x1234]), ('clr &512', 0x4382, [0x200]), ('pop &512', 0x41B2, [0x200])]
    for txt, op, ext in emu:
        code = w(op)
        for x in ext:
            code += w(x)
        yield it(txt, code, S + 'EMU/' + txt.split()[0].upper())
    # RLA/RLC dst = ADD/ADDC dst,dst with the operand in every destination mode; in symbolic (PC-relative) mode the two copies of
    # the operand get displacements that differ by the two bytes between their extension words
    for mn, op in (('rla', 5), ('rlc', 6)):
        for bw, suf in ((0, ''), (1, '.b')):
            for tgt in (BASE - 0x100, BASE, BASE + 2, BASE + 3, BASE + 4, BASE + 6, BASE + 0x200):
                code = w(op << 12 | 0 << 8 | 1 << 7 | bw << 6 | 1 << 4 | 0) + w((tgt - (BASE + 2)) & 0xffff) + w((tgt - (BASE + 4)) & 0xffff)
                yield it('org %d\n\t%s%s %d' % (BASE, mn, suf, tgt), code, S + 'EMU/' + mn.upper() + '/sym', at=BASE)
            for tgt in (BASE + 0x8002, BASE + 0x8003, BASE + 0x8004, (BASE - 0x7ffe) & 0xffff):     # displacements around the sign change: addresses wrap at 64K
                code = w(op << 12 | 0 << 8 | 1 << 7 | bw << 6 | 1 << 4 | 0) + w((tgt - (BASE + 2)) & 0xffff) + w((tgt - (BASE + 4)) & 0xffff)
                yield it('org %d\n\t%s%s %d' % (BASE, mn, suf, tgt & 0xffff), code, S + 'EMU/' + mn.upper() + '/sym-wrap', at=BASE)
            for a in (0, 2, 0x200, 0xfffe):
                yield it('%s%s &%d' % (mn, suf, a), w(op << 12 | 2 << 8 | 1 << 7 | bw << 6 | 1 << 4 | 2) + w(a) + w(a), S + 'EMU/' + mn.upper() + '/abs')
            yield it('%s%s 0(r9)' % (mn, suf), [w(op << 12 | 9 << 8 | 1 << 7 | bw << 6 | 2 << 4 | 9) + w(0), w(op << 12 | 9 << 8 | 1 << 7 | bw << 6 | 1 << 4 | 9) + w(0) + w(0)], S + 'EMU/' + mn.upper() + '/idx0')
            yield it('%s%s 6(r9)' % (mn, suf), w(op << 12 | 9 << 8 | 1 << 7 | bw << 6 | 1 << 4 | 9) + w(6) + w(6), S + 'EMU/' + mn.upper() + '/idx')
            yield it('%s%s &544' % (mn, suf), w(op << 12 | 2 << 8 | 1 << 7 | bw << 6 | 1 << 4 | 2) + w(544) + w(544), S + 'EMU/' + mn.upper() + '/abs')


def forms_8051():
    """MCS-51: the complete opcode map (255 opcodes, A5 is reserved), Intel MCS-51 Programmer's Guide, instruction opcodes in
    hexadecimal order; direct/bit/immediate operands at 0, 1, 7F, 80, FF; relative branches at both limits; AJMP/ACALL
    in the first, a middle and the last 2K page position"""
    S = '8051/'
    D = [0, 1, 0x30, 0x7f, 0x80, 0xff]       # direct addresses
    I = [0, 1, 0x7f, 0x80, 0xff]             # immediates
    B = [0, 7, 0x20, 0x7f, 0x80, 0xff]       # bit addresses
    RI = [(0, '@r0'), (1, '@r1')]
    RN = [(n, 'r%d' % n) for n in range(8)]
    for mn, base in (('inc', 0x04), ('dec', 0x14)):
        yield it('%s a' % mn, [base], S + mn.upper() + ' A')
        for d in D:
            if d != 0xe0:
                yield it('%s %d' % (mn, d), [base + 1, d], S + mn.upper() + ' direct')
        for i, t in RI:
            yield it('%s %s' % (mn, t), [base + 2 + i], S + mn.upper() + ' @Ri')
        for n, t in RN:
            yield it('%s %s' % (mn, t), [base + 4 + n], S + mn.upper() + ' Rn')
    for mn, base in (('add', 0x24), ('addc', 0x34), ('orl', 0x44), ('anl', 0x54), ('xrl', 0x64), ('subb', 0x94)):
        for v in I:
            yield it('%s a,#%d' % (mn, v), [base, v], S + mn.upper() + ' A,#')
        yield it('%s a,#256' % mn, 'ERR', S + mn.upper() + ' A,#/range')
        for d in D:
            yield it('%s a,%d' % (mn, d), [base + 1, d], S + mn.upper() + ' A,direct')
        for i, t in RI:
            yield it('%s a,%s' % (mn, t), [base + 2 + i], S + mn.upper() + ' A,@Ri')
        for n, t in RN:
            yield it('%s a,%s' % (mn, t), [base + 4 + n], S + mn.upper() + ' A,Rn')
    for mn, base in (('orl', 0x42), ('anl', 0x52), ('xrl', 0x62)):
        for d in D:
            yield it('%s %d,a' % (mn, d), [base, d], S + mn.upper() + ' direct,A')
            for v in (0, 0xff):
                yield it('%s %d,#%d' % (mn, d, v), [base + 1, d, v], S + mn.upper() + ' direct,#')
    for txt, op in (('nop', 0x00), ('rr a', 0x03), ('rrc a', 0x13), ('ret', 0x22), ('rl a', 0x23), ('reti', 0x32), ('rlc a', 0x33), ('jmp @a+dptr', 0x73),
                    ('movc a,@a+pc', 0x83), ('div ab', 0x84), ('movc a,@a+dptr', 0x93), ('inc dptr', 0xa3), ('mul ab', 0xa4), ('cpl c', 0xb3), ('clr c', 0xc3),
                    ('swap a', 0xc4), ('setb c', 0xd3), ('da a', 0xd4), ('movx a,@dptr', 0xe0), ('movx a,@r0', 0xe2), ('movx a,@r1', 0xe3), ('clr a', 0xe4),
                    ('movx @dptr,a', 0xf0), ('movx @r0,a', 0xf2), ('movx @r1,a', 0xf3), ('cpl a', 0xf4)):
        yield it(txt, [op], S + txt.upper())
    for b in B:
        for txt, op in (('orl c,%d', 0x72), ('anl c,%d', 0x82), ('mov %d,c', 0x92), ('orl c,/%d', 0xa0), ('mov c,%d', 0xa2), ('anl c,/%d', 0xb0), ('cpl %d', 0xb2),
                        ('clr %d', 0xc2), ('setb %d', 0xd2)):
            yield it(txt % b, [op, b], S + (txt % 0).upper().replace('0', 'bit'))
    yield it('setb 256', 'ERR', S + 'SETB/range')
    for v in I:
        yield it('mov a,#%d' % v, [0x74, v], S + 'MOV A,#')
        for i, t in RI:
            yield it('mov %s,#%d' % (t, v), [0x76 + i, v], S + 'MOV @Ri,#')
        for n, t in RN[::3]:
            yield it('mov %s,#%d' % (t, v), [0x78 + n, v], S + 'MOV Rn,#')
        for d in D[::2]:
            yield it('mov %d,#%d' % (d, v), [0x75, d, v], S + 'MOV direct,#')
    for d in D:
        for d2 in D[::2]:
            yield it('mov %d,%d' % (d, d2), [0x85, d2, d], S + 'MOV direct,direct')        # source first in the encoding
        for i, t in RI:
            yield it('mov %d,%s' % (d, t), [0x86 + i, d], S + 'MOV direct,@Ri')
            yield it('mov %s,%d' % (t, d), [0xa6 + i, d], S + 'MOV @Ri,direct')
        for n, t in RN[::3]:
            yield it('mov %d,%s' % (d, t), [0x88 + n, d], S + 'MOV direct,Rn')
            yield it('mov %s,%d' % (t, d), [0xa8 + n, d], S + 'MOV Rn,direct')
        if d != 0xe0:
            yield it('mov a,%d' % d, [0xe5, d], S + 'MOV A,direct')
            yield it('mov %d,a' % d, [0xf5, d], S + 'MOV direct,A')
        yield it('push %d' % d, [0xc0, d], S + 'PUSH')
        yield it('pop %d' % d, [0xd0, d], S + 'POP')
        yield it('xch a,%d' % d, [0xc5, d], S + 'XCH A,direct')
    for i, t in RI:
        yield it('mov a,%s' % t, [0xe6 + i], S + 'MOV A,@Ri')
        yield it('mov %s,a' % t, [0xf6 + i], S + 'MOV @Ri,A')
        yield it('xch a,%s' % t, [0xc6 + i], S + 'XCH A,@Ri')
        yield it('xchd a,%s' % t, [0xd6 + i], S + 'XCHD A,@Ri')
    for n, t in RN:
        yield it('mov a,%s' % t, [0xe8 + n], S + 'MOV A,Rn')
        yield it('mov %s,a' % t, [0xf8 + n], S + 'MOV Rn,A')
        yield it('xch a,%s' % t, [0xc8 + n], S + 'XCH A,Rn')
    for v in (0, 1, 0x1234, 0xffff):
        yield it('mov dptr,#%d' % v, [0x90, v >> 8, v & 0xff], S + 'MOV DPTR,#')
        yield it('org 4096\n\tljmp %d' % v, [0x02, v >> 8, v & 0xff], S + 'LJMP', at=4096)
        yield it('org 4096\n\tlcall %d' % v, [0x12, v >> 8, v & 0xff], S + 'LCALL', at=4096)
    # relative branches: displacement counted from the address behind the instruction
    at = 0x1000
    for dist in (-128, -127, -1, 0, 1, 126, 127):
        rel = dist & 0xff
        for txt, code, ln in (('sjmp', [0x80], 2), ('jc', [0x40], 2), ('jnc', [0x50], 2), ('jz', [0x60], 2), ('jnz', [0x70], 2)):
            yield it('org %d\n\t%s %d' % (at, txt, at + ln + dist), code + [rel], S + txt.upper(), at=at)
        for txt, code, ln in (('jbc 32,', [0x10, 32], 3), ('jb 32,', [0x20, 32], 3), ('jnb 255,', [0x30, 255], 3), ('djnz 48,', [0xd5, 48], 3),
                              ('cjne a,#5,', [0xb4, 5], 3), ('cjne a,48,', [0xb5, 48], 3), ('cjne @r1,#255,', [0xb7, 255], 3), ('cjne r7,#0,', [0xbf, 0], 3),
                              ('djnz r3,', [0xdb], 2)):
            yield it('org %d\n\t%s%d' % (at, txt, at + ln + dist), code + [rel], S + txt.split()[0].upper() + '/rel', at=at)
    for dist in (-129, 128):
        yield it('org %d\n\tsjmp %d' % (at, at + 2 + dist), 'ERR', S + 'SJMP/range', at=at)
        yield it('org %d\n\tdjnz r3,%d' % (at, at + 2 + dist), 'ERR', S + 'DJNZ/range', at=at)
    # absolute 11-bit jumps/calls: target in the 2K page of the FOLLOWING instruction
    for pc in (0x0000, 0x07fd, 0x07fe, 0x0800, 0x17fe):
        page = (pc + 2) & 0xf800
        for off in (0, 1, 0x2ff, 0x7ff):
            t = page | off
            yield it('org %d\n\tajmp %d' % (pc, t), [0x01 | (off >> 8) << 5, off & 0xff], S + 'AJMP', at=pc)
            yield it('org %d\n\tacall %d' % (pc, t), [0x11 | (off >> 8) << 5, off & 0xff], S + 'ACALL', at=pc)
        yield it('org %d\n\tajmp %d' % (pc, (page + 0x800) & 0xffff), 'ERR', S + 'AJMP/page', at=pc)


def forms_6800():
    """Motorola M6800: the complete opcode map (197 opcodes), M6800 Programming Reference Manual; direct/extended selection at
    the $FF/$100 boundary, indexed offsets 0/1/255, immediates 0/1/$7F/$80/$FF (16-bit: 0/1/$1234/$FFFF), relative branches at
    both limits"""
    S = '6800/'
    inh = {'nop': 0x01, 'tap': 0x06, 'tpa': 0x07, 'inx': 0x08, 'dex': 0x09, 'clv': 0x0a, 'sev': 0x0b, 'clc': 0x0c, 'sec': 0x0d, 'cli': 0x0e, 'sei': 0x0f, 'sba': 0x10,
           'cba': 0x11, 'tab': 0x16, 'tba': 0x17, 'daa': 0x19, 'aba': 0x1b, 'tsx': 0x30, 'ins': 0x31, 'pula': 0x32, 'pulb': 0x33, 'des': 0x34, 'txs': 0x35, 'psha': 0x36,
           'pshb': 0x37, 'rts': 0x39, 'rti': 0x3b, 'wai': 0x3e, 'swi': 0x3f}
    for mn, op in inh.items():
        yield it(mn, [op], S + mn.upper())
    rmw = {'neg': 0, 'com': 3, 'lsr': 4, 'ror': 6, 'asr': 7, 'asl': 8, 'rol': 9, 'dec': 10, 'inc': 12, 'tst': 13, 'clr': 15}
    for mn, lo in rmw.items():
        yield it(mn + 'a', [0x40 | lo], S + mn.upper() + 'A')
        yield it(mn + 'b', [0x50 | lo], S + mn.upper() + 'B')
        for o in (0, 1, 255):
            yield it('%s %d,x' % (mn, o), [0x60 | lo, o], S + mn.upper() + ' idx')
        yield it('%s 256,x' % mn, 'ERR', S + mn.upper() + ' idx/range')
        for a in (0x100, 0x1234, 0xffff):
            yield it('%s %d' % (mn, a), [0x70 | lo, a >> 8, a & 0xff], S + mn.upper() + ' ext')
        # these have no direct mode: a page-zero address takes the extended form
        yield it('%s 16' % mn, [0x70 | lo, 0, 16], S + mn.upper() + ' ext-of-page-zero')
    for o in (0, 255):
        yield it('jmp %d,x' % o, [0x6e, o], S + 'JMP idx')
        yield it('jsr %d,x' % o, [0xad, o], S + 'JSR idx')
    for a in (0, 0x10, 0x100, 0xffff):
        yield it('jmp %d' % a, [0x7e, a >> 8, a & 0xff], S + 'JMP ext')
        yield it('jsr %d' % a, [0xbd, a >> 8, a & 0xff], S + 'JSR ext')
    acc = {'sub': 0, 'cmp': 1, 'sbc': 2, 'and': 4, 'bit': 5, 'lda': 6, 'sta': 7, 'eor': 8, 'adc': 9, 'ora': 10, 'add': 11}
    for mn, lo in acc.items():
        for r, base in (('a', 0x80), ('b', 0xc0)):
            m = mn + r if mn not in ('lda', 'sta', 'ora') else {'lda': 'lda', 'sta': 'sta', 'ora': 'ora'}[mn] + 'a' if False else None
            name = {'lda': 'lda' + r, 'sta': 'sta' + r, 'ora': 'ora' + r}.get(mn, mn + r)
            name = {'ldaa': 'ldaa', 'ldab': 'ldab', 'staa': 'staa', 'stab': 'stab', 'oraa': 'oraa', 'orab': 'orab'}.get(name, name)
            if mn != 'sta':
                for v in (0, 1, 0x7f, 0x80, 0xff):
                    yield it('%s #%d' % (name, v), [base | lo, v], S + name.upper() + ' imm')
                yield it('%s #256' % name, 'ERR', S + name.upper() + ' imm/range')
            else:
                yield it('%s #1' % name, 'ERR', S + name.upper() + ' imm/not-allowed')
            for d in (0, 1, 0xff):
                yield it('%s %d' % (name, d), [base | 0x10 | lo, d], S + name.upper() + ' dir')
            for o in (0, 255):
                yield it('%s %d,x' % (name, o), [base | 0x20 | lo, o], S + name.upper() + ' idx')
            for a in (0x100, 0xffff):
                yield it('%s %d' % (name, a), [base | 0x30 | lo, a >> 8, a & 0xff], S + name.upper() + ' ext')
    for mn, imm, base in (('cpx', 1, 0x8c), ('lds', 1, 0x8e), ('ldx', 1, 0xce), ('sts', 0, 0x8f), ('stx', 0, 0xcf)):
        if imm:
            for v in (0, 1, 0x1234, 0xffff):
                yield it('%s #%d' % (mn, v), [base, v >> 8, v & 0xff], S + mn.upper() + ' imm16')
        else:
            yield it('%s #1' % mn, 'ERR', S + mn.upper() + ' imm/not-allowed')
        for d in (0, 0xff):
            yield it('%s %d' % (mn, d), [base | 0x10, d], S + mn.upper() + ' dir')
        for o in (0, 255):
            yield it('%s %d,x' % (mn, o), [base | 0x20, o], S + mn.upper() + ' idx')
        for a in (0x100, 0xffff):
            yield it('%s %d' % (mn, a), [base | 0x30, a >> 8, a & 0xff], S + mn.upper() + ' ext')
    br = {'bra': 0x20, 'bhi': 0x22, 'bls': 0x23, 'bcc': 0x24, 'bcs': 0x25, 'bne': 0x26, 'beq': 0x27, 'bvc': 0x28, 'bvs': 0x29, 'bpl': 0x2a, 'bmi': 0x2b, 'bge': 0x2c,
          'blt': 0x2d, 'bgt': 0x2e, 'ble': 0x2f, 'bsr': 0x8d}
    at = 0x1000
    for mn, op in br.items():
        for dist in (-128, -127, -1, 0, 1, 126, 127):
            yield it('org %d\n\t%s %d' % (at, mn, at + 2 + dist), [op, dist & 0xff], S + mn.upper(), at=at)
        for dist in (-129, 128):
            yield it('org %d\n\t%s %d' % (at, mn, at + 2 + dist), 'ERR', S + mn.upper() + '/range', at=at)


def forms_6809_indexed():
    """MC6809 indexed addressing (MC6809 data sheet, 'Indexed addressing postbyte register bit assignments'): every postbyte
    form on all four pointer registers, direct and indirect, with constant offsets at the 5-bit, 8-bit and 16-bit selection
    limits and program-counter-relative offsets at the 8/16-bit limit, on LDA ($A6) and LEAX ($30)"""
    S = '6809/'
    RR = {'x': 0, 'y': 1, 'u': 2, 's': 3}
    for mn, op in (('lda', [0xa6]), ('leax', [0x30]), ('stx', [0xaf]), ('ldy', [0x10, 0xae])):
        for r, rr in RR.items():
            base = 0x80 | rr << 5
            for txt, low, ind_ok in ((',%s+', 0, False), (',%s++', 1, True), (',-%s', 2, False), (',--%s', 3, True), (',%s', 4, True), ('b,%s', 5, True), ('a,%s', 6, True), ('d,%s', 11, True)):
                yield it('%s %s' % (mn, txt % r), op + [base | low], S + mn.upper() + ' ' + (txt % 'R'))
                if ind_ok:
                    yield it('%s [%s]' % (mn, txt % r), op + [base | 0x10 | low], S + mn.upper() + ' [' + (txt % 'R') + ']')
                else:
                    yield it('%s [%s]' % (mn, txt % r), 'ERR', S + mn.upper() + ' [' + (txt % 'R') + ']/not-allowed')
            for n in (-32768, -129, -128, -17, -16, -1, 0, 1, 15, 16, 127, 128, 32767):
                if n == 0:
                    direct = [base | 4]
                elif -16 <= n <= 15:
                    direct = [rr << 5 | (n & 0x1f)]
                elif -128 <= n <= 127:
                    direct = [base | 8, n & 0xff]
                else:
                    direct = [base | 9, (n >> 8) & 0xff, n & 0xff]
                x = it('%s %d,%s' % (mn, n, r), op + direct, S + mn.upper() + ' n,R')
                if n == 127:
                    # the assembler takes the 16-bit offset form for exactly +127 (recorded by the golden test t_full09): a longer
                    # but equivalent encoding of the same instruction, accepted as such
                    x['want'] = [x['want'], bytes(op + [base | 9, 0, 127]).hex()]
                yield x
                if n == 0:
                    ind = [base | 0x14]
                elif -128 <= n <= 127:
                    ind = [base | 0x18, n & 0xff]
                else:
                    ind = [base | 0x19, (n >> 8) & 0xff, n & 0xff]
                x = it('%s [%d,%s]' % (mn, n, r), op + ind, S + mn.upper() + ' [n,R]')
                if n == 127:
                    x['want'] = [x['want'], bytes(op + [base | 0x19, 0, 127]).hex()]
                yield x
        for a in (0, 0x1234, 0xffff):
            yield it('%s [%d]' % (mn, a), op + [0x9f, a >> 8, a & 0xff], S + mn.upper() + ' [ext]')
        # n,PCR: the offset counts from the address behind the instruction, whose length depends on the offset size
        at = 0x2000
        L = len(op)
        for d in (-128, -127, -1, 0, 1, 125, 126):
            yield it('org %d\n\t%s %d,pcr' % (at, mn, at + L + 2 + d), op + [0x8c, d & 0xff], S + mn.upper() + ' n8,PCR', at=at)
            yield it('org %d\n\t%s [%d,pcr]' % (at, mn, at + L + 2 + d), op + [0x9c, d & 0xff], S + mn.upper() + ' [n8,PCR]', at=at)
        for d in (-0x2000, -200, 200, 0x1000):
            yield it('org %d\n\t%s %d,pcr' % (at, mn, at + L + 3 + d), op + [0x8d, (d >> 8) & 0xff, d & 0xff], S + mn.upper() + ' n16,PCR', at=at)


def forms_68hc11():
    """M68HC11: what it adds to the M6800 (M68HC11 Reference Manual, opcode maps pages 1-4): D and Y register instructions, bit
    manipulation, the $18/$1A/$CD prebytes for Y-indexed and Y-register forms, JSR direct, BRN"""
    S = '68hc11/'
    for mn, code in (('idiv', [0x02]), ('fdiv', [0x03]), ('lsrd', [0x04]), ('asld', [0x05]), ('lsld', [0x05]), ('pulx', [0x38]), ('abx', [0x3a]), ('pshx', [0x3c]), ('mul', [0x3d]),
                     ('xgdx', [0x8f]), ('stop', [0xcf]), ('iny', [0x18, 0x08]), ('dey', [0x18, 0x09]), ('tsy', [0x18, 0x30]), ('tys', [0x18, 0x35]), ('puly', [0x18, 0x38]),
                     ('aby', [0x18, 0x3a]), ('pshy', [0x18, 0x3c]), ('xgdy', [0x18, 0x8f])):
        yield it(mn, code, S + mn.upper())
    for mn, base in (('subd', 0x83), ('addd', 0xc3), ('ldd', 0xcc)):
        for v in (0, 1, 0x1234, 0xffff):
            yield it('%s #%d' % (mn, v), [base, v >> 8, v & 0xff], S + mn.upper() + ' imm16')
        for d in (0, 0xff):
            yield it('%s %d' % (mn, d), [base | 0x10, d], S + mn.upper() + ' dir')
        for o in (0, 255):
            yield it('%s %d,x' % (mn, o), [base | 0x20, o], S + mn.upper() + ' idx')
            yield it('%s %d,y' % (mn, o), [0x18, base | 0x20, o], S + mn.upper() + ' idy')
        for a in (0x100, 0xffff):
            yield it('%s %d' % (mn, a), [base | 0x30, a >> 8, a & 0xff], S + mn.upper() + ' ext')
    for d in (0, 0xff):
        yield it('std %d' % d, [0xdd, d], S + 'STD dir')
        yield it('jsr %d' % d, [0x9d, d], S + 'JSR dir')
    yield it('std 5,x', [0xed, 5], S + 'STD idx')
    yield it('std 5,y', [0x18, 0xed, 5], S + 'STD idy')
    yield it('std 4660', [0xfd, 0x12, 0x34], S + 'STD ext')
    yield it('std #1', 'ERR', S + 'STD imm/not-allowed')
    # the 6800 accumulator instructions through the Y index register: prebyte $18
    for mn, op in (('ldaa', 0xa6), ('staa', 0xa7), ('ldab', 0xe6), ('stab', 0xe7), ('adda', 0xab), ('cmpb', 0xe1), ('neg', 0x60), ('clr', 0x6f), ('tst', 0x6d), ('jmp', 0x6e), ('jsr', 0xad),
                   ('lds', 0xae), ('sts', 0xaf)):
        for o in (0, 255):
            yield it('%s %d,y' % (mn, o), [0x18, op, o], S + mn.upper() + ' idy')
        yield it('%s 256,y' % mn, 'ERR', S + mn.upper() + ' idy/range')
    # X register through Y index: prebyte $CD; Y register: $18 (imm/dir/ext/idy) and $1A (idx)
    for v in (0, 0x1234, 0xffff):
        yield it('ldy #%d' % v, [0x18, 0xce, v >> 8, v & 0xff], S + 'LDY imm16')
        yield it('cpy #%d' % v, [0x18, 0x8c, v >> 8, v & 0xff], S + 'CPY imm16')
        yield it('cpd #%d' % v, [0x1a, 0x83, v >> 8, v & 0xff], S + 'CPD imm16')
    for mn, op in (('ldy', 0xce), ('sty', 0xcf), ('cpy', 0x8c)):
        yield it('%s 16' % mn, [0x18, op | 0x10, 16], S + mn.upper() + ' dir')
        yield it('%s 4660' % mn, [0x18, op | 0x30, 0x12, 0x34], S + mn.upper() + ' ext')
        yield it('%s 7,x' % mn, [0x1a, (op | 0x20) | (0x40 if mn != 'cpy' else 0), 7] if False else [0x1a, {'ldy': 0xee, 'sty': 0xef, 'cpy': 0xac}[mn], 7], S + mn.upper() + ' idx')
        yield it('%s 7,y' % mn, [0x18, {'ldy': 0xee, 'sty': 0xef, 'cpy': 0xac}[mn], 7], S + mn.upper() + ' idy')
    for mn, op in (('ldx', 0xee), ('stx', 0xef), ('cpx', 0xac)):
        yield it('%s 7,y' % mn, [0xcd, op, 7], S + mn.upper() + ' idy')
    yield it('cpd 16', [0x1a, 0x93, 16], S + 'CPD dir')
    yield it('cpd 4660', [0x1a, 0xb3, 0x12, 0x34], S + 'CPD ext')
    yield it('cpd 7,x', [0x1a, 0xa3, 7], S + 'CPD idx')
    yield it('cpd 7,y', [0xcd, 0xa3, 7], S + 'CPD idy')
    # bit manipulation: operand, mask (, branch target)
    for m in (1, 0x80, 0xff):
        yield it('bset 16,#%d' % m, [0x14, 16, m], S + 'BSET dir')
        yield it('bclr 16,#%d' % m, [0x15, 16, m], S + 'BCLR dir')
        yield it('bset 5,x,#%d' % m, [0x1c, 5, m], S + 'BSET idx')
        yield it('bclr 5,x,#%d' % m, [0x1d, 5, m], S + 'BCLR idx')
        yield it('bset 5,y,#%d' % m, [0x18, 0x1c, 5, m], S + 'BSET idy')
        yield it('bclr 5,y,#%d' % m, [0x18, 0x1d, 5, m], S + 'BCLR idy')
    at = 0x1000
    for dist in (-128, -1, 0, 127):
        yield it('org %d\n\tbrset 16,#1,%d' % (at, at + 4 + dist), [0x12, 16, 1, dist & 0xff], S + 'BRSET dir', at=at)
        yield it('org %d\n\tbrclr 16,#128,%d' % (at, at + 4 + dist), [0x13, 16, 128, dist & 0xff], S + 'BRCLR dir', at=at)
        yield it('org %d\n\tbrset 5,x,#1,%d' % (at, at + 4 + dist), [0x1e, 5, 1, dist & 0xff], S + 'BRSET idx', at=at)
        yield it('org %d\n\tbrclr 5,y,#1,%d' % (at, at + 5 + dist), [0x18, 0x1f, 5, 1, dist & 0xff], S + 'BRCLR idy', at=at)
        yield it('org %d\n\tbrn %d' % (at, at + 2 + dist), [0x21, dist & 0xff], S + 'BRN', at=at)
    yield it('org %d\n\tbrset 16,#1,%d' % (at, at + 4 + 128), 'ERR', S + 'BRSET/range', at=at)
    yield it('org %d\n\tbrclr 5,y,#1,%d' % (at, at + 5 - 129), 'ERR', S + 'BRCLR idy/range', at=at)


def forms_65c02():
    """65C02: what it adds to the NMOS 6502 (WDC W65C02S data sheet, opcode matrix): BRA, PHX/PLX/PHY/PLY, STZ, TRB/TSB, INC/DEC A,
    BIT #/zp,x/abs,x, JMP (abs,x), the (zp) mode of the eight accumulator instructions, and the Rockwell bit instructions"""
    S = '65c02/'
    for mn, op in (('phx', 0xda), ('plx', 0xfa), ('phy', 0x5a), ('ply', 0x7a), ('inc a', 0x1a), ('dec a', 0x3a)):      # (INA/DEA are aliases of other assemblers, not of the data sheet)
        yield it(mn, [op], S + mn.upper())
    for z in (0, 1, 0xff):
        yield it('stz %d' % z, [0x64, z], S + 'STZ zp')
        yield it('stz %d,x' % z, [0x74, z], S + 'STZ zp,x')
        yield it('trb %d' % z, [0x14, z], S + 'TRB zp')
        yield it('tsb %d' % z, [0x04, z], S + 'TSB zp')
        yield it('bit %d,x' % z, [0x34, z], S + 'BIT zp,x')
        for mn, op in (('ora', 0x12), ('and', 0x32), ('eor', 0x52), ('adc', 0x72), ('sta', 0x92), ('lda', 0xb2), ('cmp', 0xd2), ('sbc', 0xf2)):
            yield it('%s (%d)' % (mn, z), [op, z], S + mn.upper() + ' (zp)')
    for a in (0x100, 0x1234, 0xffff):
        lo, hi = a & 0xff, a >> 8
        yield it('stz %d' % a, [0x9c, lo, hi], S + 'STZ abs')
        yield it('stz %d,x' % a, [0x9e, lo, hi], S + 'STZ abs,x')
        yield it('trb %d' % a, [0x1c, lo, hi], S + 'TRB abs')
        yield it('tsb %d' % a, [0x0c, lo, hi], S + 'TSB abs')
        yield it('bit %d,x' % a, [0x3c, lo, hi], S + 'BIT abs,x')
        yield it('jmp (%d,x)' % a, [0x7c, lo, hi], S + 'JMP (abs,x)')
    for v in (0, 1, 0x80, 0xff):
        yield it('bit #%d' % v, [0x89, v], S + 'BIT #')
    yield it('lda (256)', 'ERR', S + 'LDA (zp)/range')
    at = 0x1000
    for dist in (-128, -1, 0, 127):
        yield it('org %d\n\tbra %d' % (at, at + 2 + dist), [0x80, dist & 0xff], S + 'BRA', at=at)
    for dist in (-129, 128):
        yield it('org %d\n\tbra %d' % (at, at + 2 + dist), 'ERR', S + 'BRA/range', at=at)
    for n in range(8):
        yield it('rmb%d 18' % n, [0x07 | n << 4, 18], S + 'RMBn')
        yield it('smb%d 18' % n, [0x87 | n << 4, 18], S + 'SMBn')
        for dist in (-128, 127):
            yield it('org %d\n\tbbr%d 18,%d' % (at, n, at + 3 + dist), [0x0f | n << 4, 18, dist & 0xff], S + 'BBRn', at=at)
            yield it('org %d\n\tbbs%d 18,%d' % (at, n, at + 3 + dist), [0x8f | n << 4, 18, dist & 0xff], S + 'BBSn', at=at)


def forms_avr_reduced():
    """AVRrc (ATtiny4/5/9/10/20/40): registers r16..r31 only, and LDS/STS exist only in the 16-bit form 1010 skkk dddd kkkk for the
    data addresses 0x40..0xBF, k[3:0] -> bits 3:0, k[5:4] -> bits 10:9, k[6] -> bit 8 (AVR Instruction Set Manual, 'LDS (AVRrc)', 'STS (AVRrc)')"""
    S = 'avrrc/'

    def w(v):
        return [v & 0xff, v >> 8]
    for d in (16, 17, 24, 31):
        for k in (0x40, 0x41, 0x4f, 0x50, 0x5a, 0x7f, 0x80, 0x8f, 0xa5, 0xbf):
            enc = (d & 15) << 4 | (k & 0x0f) | (k & 0x30) << 5 | (k & 0x40) << 2
            yield it('lds r%d,%d' % (d, k), w(0xa000 | enc), S + 'LDS')
            yield it('sts %d,r%d' % (k, d), w(0xa800 | enc), S + 'STS')
    for k in (0, 0x3f, 0xc0, 0xff, 0x100):
        yield it('lds r16,%d' % k, 'ERR', S + 'LDS/range')
        yield it('sts %d,r16' % k, 'ERR', S + 'STS/range')
    yield it('lds r15,64', 'ERR', S + 'LDS/register')
    yield it('sts 64,r0', 'ERR', S + 'STS/register')
    for mn, op in (('ldi', 0xE000), ('cpi', 0x3000), ('subi', 0x5000)):
        for d in (16, 31):
            yield it('%s r%d,165' % (mn, d), w(op | (165 & 0xf0) << 4 | (d - 16) << 4 | (165 & 0x0f)), S + mn.upper())
    yield it('mov r16,r31', w(0x2C00 | 1 << 9 | 16 << 4 | 15), S + 'MOV')
    yield it('mov r15,r16', 'ERR', S + 'MOV/register')
    yield it('add r16,r7', 'ERR', S + 'ADD/register')


def forms_avr_large():
    """ATmega2560 (128K words of flash): JMP/CALL k with 22 address bits - 1001 010k kkkk 110k / kkkk kkkk kkkk kkkk (CALL: ...111k)"""
    S = 'avr-large/'

    def w(v):
        return [v & 0xff, v >> 8]
    for mn, base in (('jmp', 0x940C), ('call', 0x940E)):
        for k in (0, 1, 0xfffe, 0xffff, 0x10000, 0x10001, 0x12345, 0x1fffe, 0x1ffff):
            yield it('%s %d' % (mn, k), w(base | ((k >> 17) & 0x1f) << 4 | ((k >> 16) & 1)) + w(k & 0xffff), S + mn.upper())
        yield it('%s 4194304' % mn, 'ERR', S + mn.upper() + '/range')
    for k in (0, 1, 0xffff):
        yield it('lds r5,%d' % k, w(0x9000 | 5 << 4) + w(k), S + 'LDS')
        yield it('sts %d,r5' % k, w(0x9200 | 5 << 4) + w(k), S + 'STS')
    yield it('eijmp', w(0x9419), S + 'EIJMP')
    yield it('eicall', w(0x9519), S + 'EICALL')
    yield it('elpm', w(0x95D8), S + 'ELPM')


def forms_melps740_nops():
    """MELPS 740: the assembler puts a NOP (EA) in front of SEC/CLC/CLD that directly follow an ADC/SBC, and in front of a bit branch
    (BBS/BBC) that directly follows SEI/CLI - the instruction itself stays what it is"""
    S = 'melps740/'
    for mn, op in (('sec', 0x38), ('clc', 0x18), ('cld', 0xd8)):
        yield it('adc #1\n\t%s' % mn, [0x69, 0x01, 0xea, op], S + 'NOP-before-' + mn.upper())
        yield it('sbc #1\n\t%s' % mn, [0xe9, 0x01, 0xea, op], S + 'NOP-before-' + mn.upper())
        yield it('lda #1\n\t%s' % mn, [0xa9, 0x01, op], S + mn.upper())
    for k, (pre, pop) in enumerate((('sei', 0x78), ('cli', 0x58))):
        for bit in (0, 3, 7):
            for j, (mn, base) in enumerate((('bbs', 0x03), ('bbc', 0x13))):
                at = 0x1000 + 0x100 * k + 0x20 * bit + 0x10 * j
                # <pre> at `at`, NOP at at+1, the branch at at+2 (two bytes for the accumulator form), target = the line's own label = at+1
                yield it('org %d\n\t%s\nq%d%d%d:\t%s %d,a,q%d%d%d' % (at, pre, k, bit, j, mn, bit, k, bit, j), [pop, 0xea, base | bit << 5, (at + 1 - (at + 4)) & 0xff], S + 'NOP-before-' + mn.upper(), at=at)
        yield it('%s\n\tnop\n\tbbs 1,a,*' % pre, [pop, 0xea, 0x23, 0xfe], S + 'BBS')


ISAS = {
    'melps740-nops': dict(cpu='melps740', gen=forms_melps740_nops, slot=8),
    'avr-large': dict(cpu='atmega2560', gen=forms_avr_large, slot=4),
    'avr-reduced-core': dict(cpu='attiny10', gen=forms_avr_reduced, slot=4),
    '6502': dict(cpu='6502', gen=forms_6502, slot=8),
    '8080': dict(cpu='8080', gen=forms_8080, slot=8),
    '8085': dict(cpu='8085', gen=forms_8085, slot=8),
    '4004': dict(cpu='4004', gen=forms_4004, slot=4),
    'pic16c84': dict(cpu='16c84', gen=forms_pic, slot=2),
    'z80': dict(cpu='z80', gen=forms_z80, slot=8),
    'avr': dict(cpu='at90s8515', gen=forms_avr, slot=4, pre=['p%d\tport %d' % (a, a) for a in (0, 31, 32, 57, 63)]),
    'msp430-jumps': dict(cpu='msp430', gen=forms_msp430_jumps, slot=4),
    'msp430': dict(cpu='msp430', gen=forms_msp430, slot=8),
    '8051': dict(cpu='8051', gen=forms_8051, slot=4),
    '6800': dict(cpu='6800', gen=forms_6800, slot=4),
    '6809-indexed': dict(cpu='6809', gen=forms_6809_indexed, slot=8),
    '68hc11': dict(cpu='6811', gen=forms_68hc11, slot=8),
    '65c02': dict(cpu='w65c02s', gen=forms_65c02, slot=8),
}
