import os, subprocess, sys, tempfile, shutil, collections
from multiprocessing import Pool
B='/tmp/bt/'   # asan build
seed=open('/tmp/w/p1.p','rb').read()
base=tempfile.mkdtemp(dir='/dev/shm')
TOOLS={'plist':['plist','x.p'],'p2bin':['p2bin','x.p','o.bin'],'p2hex':['p2hex','x.p','o.hex'],'pbind':['pbind','x.p','o.p']}
def run(job):
    tool,kind,data=job
    d=os.path.join(base,str(os.getpid())); os.makedirs(d,exist_ok=True)
    open(d+'/x.p','wb').write(data)
    a=TOOLS[tool]
    try:
        r=subprocess.run([B+a[0]]+a[1:],cwd=d,capture_output=True,env={'LC_ALL':'C','ASAN_OPTIONS':'detect_leaks=0:exitcode=99'},timeout=3)
    except subprocess.TimeoutExpired: return (tool,kind),'HANG'
    if r.returncode<0: return (tool,kind),'SIGNAL %d'%r.returncode
    if r.returncode==99:
        import re
        m=re.search(rb'ERROR: AddressSanitizer: (\S+)',r.stderr); f=re.search(rb'#\d+ \S+ in (\S+) /repo/(\S+)',r.stderr)
        return (tool,kind),'ASAN %s %s'%(m.group(1).decode() if m else '?', (f.group(1)+b'@'+f.group(2)).decode() if f else '?')
    return (tool,kind),'rc%d'%r.returncode
if __name__=='__main__':
    jobs=[]
    for t in TOOLS:
        for n in range(len(seed)): jobs.append((t,'trunc%d'%n,seed[:n]))
        for off in range(len(seed)-40):   # skip creator string tail
            for v in (0,1,0x7f,0x80,0x81,0xff):
                if seed[off]!=v: jobs.append((t,'sub%d=%02x'%(off,v),seed[:off]+bytes([v])+seed[off+1:]))
    print(len(seed),'seed bytes',len(jobs),'jobs')
    with Pool(16) as p: rs=p.map(run,jobs,chunksize=20)
    c=collections.Counter((k[0],r) for k,r in rs)
    for k,v in sorted(c.items()): print(v,k)
    sh=collections.Counter()
    for k,r in rs:
        kk=(k[0],r)
        if not r.startswith('rc') and sh[kk]<2: sh[kk]+=1; print(k,r)
    shutil.rmtree(base)
