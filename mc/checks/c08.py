"""C08 - expressions and constants evaluate to their documented mathematical value.

Expressions are generated as TREES and rendered with the minimal parentheses the manual's rank table and the
left-to-right rule require, so the tree's value (computed by the reference evaluator below: 64-bit two's complement,
IEEE double, truncating division, 0/1 truth values, documented function results) is the expected value.  The value is
observed bit-exactly through DQ/DB on the 8086 target.
"""
import itertools, math, struct
from .. import core, micro
from ..fmt import pfile

ID = 'C08'
LEVEL = 'model_checking'
VARIANTS = ['plain']
CHUNK = 1
ENGINE = 'product-enumerator'
TECHNIQUE = 'exhaustive operator/leaf products and rank-interaction trees rendered from a reference evaluator, executed on the real assembler (batched with bisection)'
LEVEL_TEXT = ('Every binary operator spelling x every ordered pair of boundary leaves (15 integers, 10 floats, 5 strings, mixed int/float), every ordered '
              'pair (thorough: triple) of operators in both (all five) tree shapes rendered with minimal parentheses, every built-in function on its '
              'domain edges, and every integer notation x RADIX x RELAXED/INTSYNTAX setup history are assembled; the 64-bit / IEEE-double result is '
              'compared bit for bit with the reference evaluator, and every undefined operation must be reported as an error.'
              " Shift counts 0..64 and beyond, >> on negative operands (logical, as the manual's operator table says), INT() at the limits of the 64-bit range and SINH/COSH beyond the double range on both sides are part of the function and depth-1 sub-spaces."
              ' Added in the last round: user-defined FUNCTIONs over int/float/string arguments; every radix at which a notation letter becomes a digit (also in quick); notation-changing statements at the end of a two-pass source; 64-bit string indices; TANH, 0^negative, BITPOS of bit 63.')
LEVEL_NOTE = ('Trusted: the reference evaluator written from the manual\'s operator and function tables; transcendental functions are accepted within '
              '1 ulp of the host libm. Domain: shift counts 0..63, >> with non-negative left operand, >< count 1..32, integer ^ with exponent >= 0, '
              'no string/number mixing.')
RULE = 'one micro-case per expression; distinct = distinct expression text; non-trivial = all'
BOUNDS = {'quick': 'depth-1 full; operator pairs; functions; literals RADIX {2,8,10,16}', 'thorough': '+ operator triples (rank classes), RADIX 2..36'}
ASSUMPTIONS = ['DQ on the 8086 target stores a 64-bit integer little-endian or an IEEE double']

M = 1 << 64


def wrap(x):
    x %= M
    return x - M if x >= 1 << 63 else x


class Err(Exception):
    pass


class Skip(Exception):
    pass


INTS = [0, 1, -1, 2, 3, 7, 31, 32, 63, 64, 2 ** 31 - 1, 2 ** 31, 2 ** 32, 2 ** 63 - 1, -2 ** 63]
FLTS = [0.0, 1.0, -1.0, 2.0, -2.0, 0.5, 3.0, -3.0, 1e308, 1e-308]
STRS = ['', 'a', 'b', 'ab', 'AB']
RANK = {'<>': 14, '!=': 14, '>=': 14, '<=': 14, '<': 14, '>': 14, '=': 14, '==': 14, '!!': 13, '||': 12, '&&': 11, '-': 10, '+': 10,
        '#': 9, '/': 9, '*': 9, '^': 8, '!': 7, '|': 6, '&': 5, '><': 4, '>>': 3, '<<': 3}
INTONLY = {'!!', '||', '&&', '#', '!', '|', '&', '><', '>>', '<<'}
CMP = {'<>', '!=', '>=', '<=', '<', '>', '=', '=='}


def cmpop(op, a, b):
    if op in ('=', '=='):
        return int(a == b)
    if op in ('<>', '!='):
        return int(a != b)
    return int({'<': a < b, '>': a > b, '<=': a <= b, '>=': a >= b}[op])


NOTES = []      # facts about the evaluation of the current item that name its finding class


def iop(op, a, b):
    if op == '+':
        return wrap(a + b)
    if op == '-':
        return wrap(a - b)
    if op == '*':
        return wrap(a * b)
    if op in ('/', '#'):
        if b == 0:
            raise Err()
        q = abs(a) // abs(b)
        q = q if (a < 0) == (b < 0) else -q
        return wrap(q) if op == '/' else wrap(a - q * b)
    if op == '&':
        return wrap((a % M) & (b % M))
    if op == '|':
        return wrap((a % M) | (b % M))
    if op == '!':
        return wrap((a % M) ^ (b % M))
    if op == '<<':
        if b < 0:
            raise Skip()
        return wrap((a % M) << b) if b <= 63 else 0       # (64 bits: a count of 64 or more shifts everything out)
    if op == '>>':
        if b < 0:
            raise Skip()
        if a < 0 and b > 0:
            NOTES.append('negative-value-shifted-right')
        return wrap((a % M) >> b)                          # "log. shift right" (manual, table of operators)
    if op == '^':
        if b < 0:
            raise Skip()
        return wrap(pow(a, b, M))
    if op == '&&':
        return int(a != 0 and b != 0)
    if op == '||':
        return int(a != 0 or b != 0)
    if op == '!!':
        return int((a != 0) != (b != 0))
    if op in CMP:
        return cmpop(op, a, b)
    if op == '><':
        if not 1 <= b <= 32:
            raise Err()
        lo = a % M
        r = (lo >> b) << b
        for z in range(b):
            if lo & (1 << (b - 1 - z)):
                r |= 1 << z
        return wrap(r)
    raise ValueError(op)


def fop(op, a, b):
    try:
        if op == '+':
            r = a + b
        elif op == '-':
            r = a - b
        elif op == '*':
            r = a * b
        elif op == '/':
            if b == 0:
                raise Err()
            r = a / b
        elif op == '^':
            if a < 0 and b != int(b):
                raise Err()
            if a == 0 and b < 0:
                raise Err()          # zero to a negative power: a division by zero
            if a < 0 and abs(b) > 2 ** 31:
                raise Skip()    # manual silent on huge integral exponents of a negative base
            r = math.pow(a, b)
        elif op in CMP:
            return cmpop(op, a, b)
        else:
            raise Err()      # operator not defined for floating point operands
    except (OverflowError, ZeroDivisionError):
        raise Skip()
    if math.isinf(r) or math.isnan(r):
        raise Skip()
    return r


def binop(op, a, b):
    if isinstance(a, str) or isinstance(b, str):
        if not (isinstance(a, str) and isinstance(b, str)):
            raise Skip()
        if op == '+':
            return a + b
        if op in CMP:
            return cmpop(op, a, b)
        raise Skip()      # conversion of strings to integers "on the fly" is not pinned down for operators
    if isinstance(a, float) or isinstance(b, float):
        return fop(op, float(a), float(b))
    return iop(op, a, b)


def lit(v):
    if isinstance(v, str):
        return '"%s"' % v
    if isinstance(v, float):
        s = '%.17g' % abs(v)
        if 'e' in s:
            mant, ex = s.split('e')
            if '.' not in mant:
                mant += '.0'
            s = '%sE%s%d' % (mant, '-' if int(ex) < 0 else '', abs(int(ex)))
        elif '.' not in s:
            s += '.0'
        assert float(s.replace('E', 'e').strip('()')) == abs(v)
        return s if not (v < 0 or math.copysign(1, v) < 0) else '(0.0-%s)' % s
    if v == -2 ** 63:
        return '(0-9223372036854775807-1)'
    return str(v) if v >= 0 else '(0-%d)' % (-v)


# trees: ('leaf', v) | ('bin', op, L, R) | ('un', op, X) | ('fn', name, [args])
def ev(t):
    if t[0] == 'leaf':
        return t[1]
    if t[0] == 'bin':
        return binop(t[1], ev(t[2]), ev(t[3]))
    if t[0] == 'un':
        x = ev(t[2])
        if isinstance(x, (float, str)):
            raise Err()
        return wrap(~x) if t[1] == '~' else int(x == 0)
    raise ValueError(t)


def render(t, parent=None, side=None):
    if t[0] == 'leaf':
        return lit(t[1])
    if t[0] == 'un':
        inner = render(t[2])
        return '%s%s' % (t[1], inner if t[2][0] == 'leaf' and not inner.startswith('(') else '(%s)' % inner) if t[2][0] != 'leaf' or True else ''
    op = t[1]
    s = '%s%s%s' % (render(t[2], op, 'L'), op, render(t[3], op, 'R'))
    if parent is not None:
        # minimal parentheses: left child needs them if it binds weaker, right child if it does not bind stronger
        if (side == 'L' and RANK[op] > RANK[parent]) or (side == 'R' and RANK[op] >= RANK[parent]):
            return '(%s)' % s
    return s


def want_of(v):
    if isinstance(v, str):
        return v.encode('latin-1').hex()
    if isinstance(v, float):
        return struct.pack('<d', v).hex()
    return struct.pack('<q', v).hex()


def item(expr, tree=None, val=None, tol=False, kind='dq'):
    r = item0(expr, tree, val, tol, kind)
    if r is not None and NOTES:
        r['note'] = NOTES[0]
    return r


def item0(expr, tree=None, val=None, tol=False, kind='dq'):
    del NOTES[:]
    try:
        v = ev(tree) if tree is not None else val()
    except Skip:
        return None
    except Err:
        return {'line': '\t%s %s' % (kind, expr), 'want': 'ERR', 'e': expr}
    if isinstance(v, str):
        if len(v) == 0:
            return None
        return {'line': '\tdb %s' % expr, 'want': want_of(v), 'e': expr}
    w = want_of(v)
    if tol and isinstance(v, float) and v != 0:
        w = [w, want_of(math.nextafter(v, math.inf)), want_of(math.nextafter(v, -math.inf))]
    return {'line': '\tdq %s' % expr, 'want': w, 'e': expr}


OPS = list(RANK)


def depth1():
    for op in OPS:
        for a in INTS:
            for b in INTS:
                yield ('bin', op, ('leaf', a), ('leaf', b))
        for a in FLTS:
            for b in FLTS:
                yield ('bin', op, ('leaf', a), ('leaf', b))
        for a in STRS:
            for b in STRS:
                yield ('bin', op, ('leaf', a), ('leaf', b))
        for a in (0, 1, -1, 3, 2 ** 31):
            for b in (0.0, 0.5, -3.0, 2.0):
                yield ('bin', op, ('leaf', a), ('leaf', b))
                yield ('bin', op, ('leaf', b), ('leaf', a))
    for op in ('~', '~~'):
        for a in INTS:
            yield ('un', op, ('leaf', a))
        for a in (1.5,):
            yield ('un', op, ('leaf', a))


def pairs():
    for leaves in ((5, 3, 2), (7, 2, 1), (1, 0, 4)):
        a, b, c = [('leaf', x) for x in leaves]
        for o1 in OPS:
            for o2 in OPS:
                yield ('bin', o2, ('bin', o1, a, b), c)
                yield ('bin', o1, a, ('bin', o2, b, c))
        for u in ('~', '~~'):
            for o1 in OPS:
                yield ('bin', o1, ('un', u, a), b)
                yield ('un', u, ('bin', o1, a, b))
                yield ('bin', o1, a, ('un', u, b))


def triples():
    reps = {}
    for op in OPS:
        reps.setdefault(RANK[op], op)
    ops = sorted(reps.values(), key=lambda o: RANK[o]) + ['-', '/', '>=']
    lv = [('leaf', x) for x in (9, 5, 3, 2)]
    a, b, c, d = lv
    for o1 in ops:
        for o2 in ops:
            for o3 in ops:
                yield ('bin', o3, ('bin', o2, ('bin', o1, a, b), c), d)
                yield ('bin', o3, ('bin', o1, a, ('bin', o2, b, c)), d)
                yield ('bin', o2, ('bin', o1, a, b), ('bin', o3, c, d))
                yield ('bin', o1, a, ('bin', o3, ('bin', o2, b, c), d))
                yield ('bin', o1, a, ('bin', o2, b, ('bin', o3, c, d)))


# ---- functions -----------------------------------------------------------------------------------

def popcnt(x):
    return bin(x % M).count('1')


def functions():
    out = []

    def f(expr, fn, tol=False):
        it = item(expr, val=fn, tol=tol)
        if it:
            out.append(it)
    bits = [0, 1, 2, 3, 4, 5, 6, 8, 9, 12, 40, 128, 255, 256, 2 ** 31, 2 ** 32, 2 ** 32 + 2 ** 31, 2 ** 62, 2 ** 63 - 1, -1, -2, -2 ** 63]
    for x in bits:
        u = x % M
        f('bitcnt(%s)' % lit(x), lambda x=x: popcnt(x))
        f('firstbit(%s)' % lit(x), lambda u=u: -1 if u == 0 else (u & -u).bit_length() - 1)
        f('lastbit(%s)' % lit(x), lambda u=u: -1 if u == 0 else u.bit_length() - 1)

        def bp(u=u):
            if popcnt(u) != 1:
                raise Err()
            return u.bit_length() - 1
        f('bitpos(%s)' % lit(x), bp)
        f('sgn(%s)' % lit(x), lambda x=x: (x > 0) - (x < 0))
        f('abs(%s)' % lit(x), lambda x=x: wrap(abs(x)))
        f('exprtype(%s)' % lit(x), lambda: 0)
    for x in [0.0, 1.0, -1.0, 0.5, -0.5, 2.0, 4.0, 1e-308, 1e308, 3.0, 0.25, 10.0, 100.0]:
        L = lit(x)
        big = abs(x) > 1e100 or (0 < abs(x) < 1e-100)   # extreme magnitudes: only the exact functions are demanded
        f('sgn(%s)' % L, lambda x=x: (x > 0) - (x < 0))
        f('abs(%s)' % L, lambda x=x: abs(x))
        f('exprtype(%s)' % L, lambda: 1)

        def dom(fn, ok):
            def g():
                if big:
                    raise Skip()
                if not ok:
                    raise Err()
                try:
                    r = fn()
                except (OverflowError, ValueError):
                    raise Skip()
                if math.isinf(r) or math.isnan(r):
                    raise Skip()
                return r
            return g
        f('sqrt(%s)' % L, dom(lambda x=x: math.sqrt(x), x >= 0), True)
        f('sin(%s)' % L, dom(lambda x=x: math.sin(x), True), True)
        f('cos(%s)' % L, dom(lambda x=x: math.cos(x), True), True)
        f('atan(%s)' % L, dom(lambda x=x: math.atan(x), True), True)
        f('asin(%s)' % L, dom(lambda x=x: math.asin(x), abs(x) <= 1), True)
        f('acos(%s)' % L, dom(lambda x=x: math.acos(x), abs(x) <= 1), True)
        f('exp(%s)' % L, dom(lambda x=x: math.exp(x), True), True)
        f('ln(%s)' % L, dom(lambda x=x: math.log(x), x > 0), True)
        f('log(%s)' % L, dom(lambda x=x: math.log10(x), x > 0), True)
        f('ld(%s)' % L, dom(lambda x=x: math.log(x) / math.log(2), x > 0), True) if False else None
        f('sinh(%s)' % L, dom(lambda x=x: math.sinh(x), True), True)
        f('cosh(%s)' % L, dom(lambda x=x: math.cosh(x), True), True)
        f('tanh(%s)' % L, dom(lambda x=x: math.tanh(x), True), True)
        f('acosh(%s)' % L, dom(lambda x=x: math.acosh(x), x >= 1), True)
        f('atanh(%s)' % L, dom(lambda x=x: math.atanh(x), abs(x) < 1), True)
        f('coth(%s)' % L, dom(lambda x=x: 1 / math.tanh(x), x != 0), True) if x != 0 else f('coth(%s)' % L, dom(lambda: 0.0, False))
    # int(): the floor of every float whose floor is a 64-bit integer, an error for the others (2^63 is the first that is not)
    for L, x in [('0.5', 0.5), ('-0.5', -0.5), ('1.5', 1.5), ('-1.5', -1.5), ('2147483648.0', 2.0 ** 31), ('9007199254740992.0', 2.0 ** 53),
                 ('4611686018427387904.0', 2.0 ** 62), ('9223372036854774784.0', 2.0 ** 63 - 1024), ('9223372036854775808.0', 2.0 ** 63),
                 ('18446744073709551616.0', 2.0 ** 64), ('-9223372036854775808.0', -2.0 ** 63), ('-9223372036854777856.0', -2.0 ** 63 - 2048),
                 ('1.0e30', 1e30), ('-1.0e30', -1e30)]:
        def fi(x=x):
            v = math.floor(x)
            if not -2 ** 63 <= v < 2 ** 63:
                raise Err()
            return v
        f('int(%s)' % L, fi)
    # results beyond the double range are reported for both signs of the argument
    for L in ('711.0', '-711.0', '800.0', '-800.0', '1.0e10', '-1.0e10'):
        f('sinh(%s)' % L, dom(lambda: 0.0, False))
        f('cosh(%s)' % L, dom(lambda: 0.0, False))
    for L, x in (('709.0', 709.0), ('-709.0', -709.0), ('711.0', 711.0), ('-711.0', -711.0), ('1.0e10', 1e10), ('-1.0e300', -1e300)):
        f('tanh(%s)' % L, (lambda x=x: math.tanh(x)), True)      # bounded: defined for every argument
    for L, x in (('709.0', 709.0), ('-709.0', -709.0)):
        f('sinh(%s)' % L, (lambda x=x: math.sinh(x)), True)
        f('cosh(%s)' % L, (lambda x=x: math.cosh(x)), True)
    f('sqrt(2)', lambda: math.sqrt(2.0), True)
    f('sqrt(0-1)', dom(lambda: 0.0, False))
    for c in [0, 64, 65, 90, 91, 96, 97, 122, 123, 255]:
        f('toupper(%d)' % c, lambda c=c: c - 32 if 97 <= c <= 122 else c)
        f('tolower(%d)' % c, lambda c=c: c + 32 if 65 <= c <= 90 else c)
    strs = ['', 'a', 'ab', 'abc', 'aBc', 'abcabc']
    for s in strs:
        S = '"%s"' % s
        f('strlen(%s)' % S, lambda s=s: len(s))
        f('exprtype(%s)' % S, lambda: 2)
        f('upstring(%s)' % S, lambda s=s: s.upper())
        f('lowstring(%s)' % S, lambda s=s: s.lower())
        f('strlen(upstring(%s))' % S, lambda s=s: len(s))
        for st in list(range(-2, 5)) + [2 ** 31, 2 ** 32, 2 ** 32 + 1, 2 ** 63 - 1, -2 ** 63]:      # (an index is a 64-bit integer like any other)
            f('charfromstr(%s,%s)' % (S, lit(st)), lambda s=s, st=st: ord(s[st]) if 0 <= st < len(s) else -1)
            for n in range(0, 5):
                def sub(s=s, st=st, n=n):
                    b = max(st, 0)
                    if b >= len(s):
                        return ''
                    return s[b:] if n == 0 else s[b:b + n]
                f('substr(%s,%s,%d)' % (S, lit(st), n), sub)
                f('strlen(substr(%s,%s,%d))' % (S, lit(st), n), lambda s=s, st=st, n=n: len(sub(s, st, n)))
        for t in strs:
            f('strstr(%s,"%s")' % (S, t), lambda s=s, t=t: s.find(t))
    # string and character constants with escapes, directly in front of an operator or a closing parenthesis
    for src, val in [('\\\\', '\\'), ('a\\\\', 'a\\'), ('\\\\\\\\', '\\\\'), ('\\"', '"'), ('a\\"b', 'a"b'), ('\\n', '\n'), ('\\\\n', '\\n'), ('\\x41', 'A'), ('\\065', '5'), ('\\65', 'A')]:      # (\ddd decimal, \0ooo octal, \xhh hexadecimal: manual, string constants)
        S = '"%s"' % src
        f('strlen(%s)' % S, lambda v=val: len(v))
        f('strlen(%s)+strlen("abc")' % S, lambda v=val: len(v) + 3)
        f('strlen(%s+"x")' % S, lambda v=val: len(v) + 1)
        f('strlen("x"+%s)*2' % S, lambda v=val: 2 * len(v) + 2)
        f('(%s==%s)+4' % (S, S), lambda: 5)
        f('(%s<>"q")+4' % S, lambda: 5)
        f('charfromstr(%s,0)+1' % S, lambda v=val: ord(v[0]) + 1)
        f('(strlen(%s))' % S, lambda v=val: len(v))
    for src, val in [("'\\\\'", 0x5c), ("'\\n'", 10), ("'a'", 97), ("'\\''", 39)]:
        f('%s+1' % src, lambda v=val: v + 1)
        f('(%s)*2' % src, lambda v=val: v * 2)
        f('1+%s' % src, lambda v=val: v + 1)
    return out


def userfunctions():
    """arguments pass through a user-defined FUNCTION unchanged: integers over the 64-bit range, floats that need all 17 digits,
    strings with every kind of character"""
    out = []

    def f(expr, val, tol=False):
        it = item(expr, val=val, tol=tol)
        if it:
            out.append(it)
    for v in (0, 1, -1, 255, 2 ** 31, 2 ** 32 + 5, 2 ** 63 - 1, -2 ** 63):
        f('ident(%s)' % lit(v), lambda v=v: v)
        f('sq(%s)' % lit(v), lambda v=v: wrap(v * v))
        f('add3(%s,1,2)' % lit(v), lambda v=v: wrap(v + 3))
        f('twice(%s)' % lit(v), lambda v=v: wrap(2 * v))
    for e, v in (('0.1', 0.1), ('0.1+0.2', 0.1 + 0.2), ('1.1*1.1', 1.1 * 1.1), ('1.0/3.0', 1.0 / 3.0), ('2.0/3.0', 2.0 / 3.0), ('0.30000000000000004', 0.30000000000000004),
                 ('1.0E300', 1e300), ('1.7976931348623157E308', 1.7976931348623157e308), ('2.2250738585072014E-308', 2.2250738585072014e-308),
                 ('4.9E-324', 5e-324), ('123456789.12345679', 123456789.12345679), ('0.7+0.1', 0.7 + 0.1), ('1.0E22+1.0', 1e22 + 1.0)):
        f('ident(%s)' % e, lambda v=v: v)
        f('(ident(%s)=(%s))+4' % (e, e), lambda: 5)
        f('twice(%s)' % e, lambda v=v: v + v)
        f('add3(%s,0.0,0.0)' % e, lambda v=v: v + 0.0 + 0.0)
    for src, val in (('abc', 'abc'), ('', ''), ('a b', 'a b'), ('a,b', 'a,b'), ('a\\"b', 'a"b'), ('a\\\\b', 'a\\b'), ('a\\228b', 'a\xe4b'), ('\\128\\255', '\x80\xff'), ('(x)', '(x)'),
                     ("it's", "it's"), ('\\n', '\n'), ('\\t\\1', '\t\x01')):
        S = '"%s"' % src
        f('strlen(ident(%s))' % S, lambda v=val: len(v))
        f('(ident(%s)==%s)+4' % (S, S), lambda: 5)
        f('strlen(ident(%s)+ident(%s))' % (S, S), lambda v=val: 2 * len(v))
        if val:
            f('charfromstr(ident(%s),%d)' % (S, len(val) - 1), lambda v=val: ord(v[-1]))
    return out


# ---- literals ------------------------------------------------------------------------------------

DIG = '0123456789ABCDEFGHIJKLMNOPQRSTUVWXYZ'


def todigits(v, base):
    if v == 0:
        return '0'
    s = ''
    while v:
        s = DIG[v % base] + s
        v //= base
    return s


def literal_batches(radices):
    """(pre, items) groups: target x setup history x RADIX"""
    targets = {'8086': ('intel', '\tdq %s'), '68000': ('moto', '\tdc.q %s'), 'sc/mp': ('c', '\tdq %s')}
    setups = [[], ['\trelaxed on'], ['\trelaxed on', "\tintsyntax +x'hex'"], ['\trelaxed on', '\trelaxed off'],
              ["\tintsyntax +x'hex'"], ["\tintsyntax +x'hex'", '\trelaxed on']]
    for cpu, (native, stmt) in targets.items():
        for su in setups:
            relaxed = False
            ibm = False
            for l in su:
                if l.endswith('relaxed on'):
                    relaxed = True
                elif l.endswith('relaxed off'):
                    relaxed = False
                elif 'intsyntax' in l:
                    ibm = True
            for rad in radices:
                pre = ['\tcpu ' + cpu] + (['\tpadding off'] if cpu == '68000' else []) + su + (['\tradix %d' % rad] if rad != 10 else [])
                items = []

                def add(text, val):
                    items.append({'line': stmt % text, 'want': struct.pack('<q' if cpu != '68000' else '>q', wrap(val)).hex(), 'e': text})
                vals = [0, 1, rad - 1, rad, rad * rad + 1, 255, 4660]
                for v in vals:
                    d = todigits(v, rad)
                    if d[0] in '0123456789' and not (relaxed and len(d) > 1 and d[0] == '0'):
                        # direct constants are read in the RADIX base; in relaxed/C mode a leading zero means octal
                        if not ((native == 'c' or relaxed) and len(d) > 1 and d[0] == '0'):
                            add(d, v)
                modes = {native} | ({'intel', 'moto', 'c', 'ibm'} if relaxed else set()) | ({'ibm'} if ibm else set())
                for v in [0, 1, 9, 10, 255, 4660, 2 ** 32 + 5]:
                    hx, bn, oc = todigits(v, 16), todigits(v, 2), todigits(v, 8)
                    if 'intel' in modes:
                        if rad <= 17:
                            add(('0' if hx[0] > '9' else '') + hx + 'h', v)
                        if rad <= 11:
                            add(bn + 'b', v)
                        if rad <= 24:
                            add(oc + 'o', v)
                        if rad <= 26:
                            add(oc + 'q', v)
                    if 'moto' in modes:
                        add('$' + hx, v)
                        add('%' + bn, v)
                        add('@' + oc, v)
                    if 'c' in modes:
                        if rad <= 33:
                            add('0x' + hx, v)
                        if rad <= 11:
                            add('0b' + bn, v)
                        add('0' + oc, v)
                    if 'ibm' in modes:
                        add("x'%s'" % hx, v)
                        if relaxed:
                            add("h'%s'" % hx, v)
                            add("o'%s'" % oc, v)
                            add("b'%s'" % bn, v)
                yield pre, items


def subspaces(tier):
    q = tier == 'quick'
    pre = ['\tcpu 8086']
    subs = []

    def tb(gen):
        seen = set()
        its = []
        for t in gen:
            e = render(t)
            if e in seen:
                continue
            seen.add(e)
            it = item(e, tree=t)
            if it:
                its.append(it)
        return micro.batches(pre, [], its, 400)
    subs.append(('a:depth-1', tb(depth1())))
    subs.append(('b:operator-pairs', tb(pairs())))
    if not q:
        subs.append(('b:operator-triples', tb(triples())))
    subs.append(('c:functions', micro.batches(pre, [], functions(), 400)))
    subs.append(('c:user-functions', micro.batches(pre + ['ident\tfunction x,x', 'sq\tfunction x,x*x', 'add3\tfunction a,b,c,a+b+c', 'twice\tfunction f,ident(f)+ident(f)'],
                                                    [], userfunctions(), 400)))
    rads = [2, 8, 10, 11, 12, 16, 17, 18, 24, 25, 26, 27, 33, 34, 36] if q else list(range(2, 37))      # (quick: the radixes at which a suffix or prefix letter becomes a digit)

    def lb():
        for p, its in literal_batches(rads):
            for b in micro.batches(p, [], its, 400, fixed=8):
                yield b
    subs.append(('d:literals', lb()))
    fl = [{'line': '\tdq %s' % e, 'want': struct.pack('<d', v).hex(), 'e': e} for e, v in
          (('2.0*1.0E-3', 2.0 * 1.0e-3), ('1.0E-3*2.0', 1.0e-3 * 2.0), ('1.0+1.0E-10', 1.0 + 1.0e-10), ('1.0E-10+1.0', 1.0e-10 + 1.0), ('1.0E-3', 1.0e-3),
           ('1.5E-3-1.0', 1.5e-3 - 1.0), ('1.0-1.5E-3', 1.0 - 1.5e-3), ('2.0^1.0E-1', math.pow(2.0, 0.1)), ('4.0/1.0E-2', 4.0 / 1.0e-2))]
    subs.append(('e:float-literal-with-negative-exponent-in-formula', micro.batches(pre, [], fl, 50)))
    subs.append(('f:notation-state-across-passes', list(passstate_cases())))
    return subs


PASS_STATES = ['radix 16', 'radix 2', 'radix 8', 'radix 36', 'outradix 2', 'outradix 10', 'relaxed on', "intsyntax +x'hex'", "intsyntax -0hex", "charset 'a',1",
               "charset 'a','z','A'", 'dottedstructs on', 'enumconf 4']
PASS_PROBES = ['\tdq 10', '\tdq 100', '\tdq 11h', '\tdb "abz"', '\tdb "\\{255}"', '\tdq 1010b', '\tdq 17o', "\tdb 'a'+1", '\tdq 0ffh', 'e1\tenum a1,b1\n\tdb b1']


def passstate_cases():
    """a statement that changes how numbers or characters are read holds from its line on - not, in the next pass, for the lines
    in front of it: probes in front of the statement, a forward reference that forces a second pass"""
    for st in PASS_STATES:
        for n in (1, 2):
            yield {'k': 'passstate', 'state': st, 'passes': n}


def ev_passstate(case):
    def src(with_state):
        l = ['\tcpu 8086', '\torg 100h'] + PASS_PROBES
        if case['passes'] == 2:
            l += ['\tdw fwd']
        l += ['\torg 400h']
        if with_state:
            l += ['\t' + case['state']]
        l += ['fwd:\tdb 1']
        return '\n'.join(l) + '\n'
    res = []
    for w in (0, 1):
        core.fresh()
        core.put('a.asm', src(w))
        o = core.run('asl', ['-q', 'a.asm'])
        ck = core.crashkind(o)
        if ck:
            return core.R(False, ck, 'passstate/crash/' + ck, '%s on %s' % (ck, src(w).replace('\n', ' / ')), transitions=2)
        p = core.get('a.p')
        if o.rc != 0 or p is None:
            return core.R(False, 'rejected', 'passstate/rejected/' + case['state'].split()[0], 'rc=%s %s on %s' % (o.rc, (o.out + o.err)[-200:].decode('latin-1'), src(w).replace('\n', ' / ')), transitions=2)
        res.append(b''.join(r.data for r in pfile.data_records(pfile.read(p)) if r.start < 0x400))
    if res[0] != res[1]:
        return core.R(False, 'state-leak', 'passstate/%s' % case['state'].split()[0], '`%s` at the end of the source changes the code of the lines in front of it (%d passes): %s vs %s' % (case['state'], case['passes'], res[1].hex()[:120], res[0].hex()[:120]), transitions=2)
    return core.R(True, 'passstate-ok', states=['ps:' + case['state']], transitions=2)


def describe(case):
    if case['k'] == 'passstate':
        return case
    if case['k'] == 'batch':
        return [it['e'] for it in case['items'][:5]]
    return case.get('e')


def sigf(it):
    import re
    e = it.get('e', '')
    if it.get('note'):
        return it['note']
    if re.search(r'[0-9]E-[0-9]', e) and not e.startswith('(') and '(' not in e and re.search(r'[-+*/^]', re.sub(r'E-', 'E', e)):
        return 'bare-negative-exponent-literal-inside-formula'
    return re.sub(r'\(0(\.0)?-[0-9.E-]+(-1)?\)|[0-9][0-9A-Za-z.]*|"[^"]*"', 'N', e)[:40]


def evaluate(case):
    if case['k'] == 'passstate':
        return ev_passstate(case)
    return micro.evaluate_batch(case, lambda a: 'org %d' % a, sigf)
