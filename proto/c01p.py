import itertools, os, subprocess, sys, tempfile, shutil, collections
from multiprocessing import Pool
ASL=os.environ.get('ASLBIN','/repo/_build/asl')
ITEMS=['LBL','LBLI','BR','DATW','DATL','ODD','NOP','GAP126','GAP127']
def render(seq):
    # one label 'lab'; LBL = label alone; LBLI = label attached to next item (rendered as prefix)
    out=['\tcpu 68000','\torg $1000']
    pending=''
    for it in seq:
        if it=='LBL': out.append('lab:'); continue
        if it=='LBLI': pending='lab:'; continue
        txt={'BR':'bra lab','DATW':'dc.w lab','DATL':'dc.l lab','ODD':'dc.b 1','NOP':'nop','GAP126':'ds.b 126','GAP127':'ds.b 127'}[it]
        out.append(pending+'\t'+txt); pending=''
    if pending: out.append(pending)
    return '\n'.join(out)+'\n'
def gen(maxlen):
    for n in range(2,maxlen+1):
        for seq in itertools.product(ITEMS,repeat=n):
            nl=sum(1 for x in seq if x in('LBL','LBLI'))
            if nl!=1: continue
            if not any(x in('BR','DATW','DATL') for x in seq): continue
            if seq[-1]=='LBLI': continue
            yield seq
base=tempfile.mkdtemp(dir='/dev/shm')
def run(seq):
    d=os.path.join(base,str(os.getpid())); os.makedirs(d,exist_ok=True)
    open(os.path.join(d,'a.asm'),'w').write(render(seq))
    try:
        r=subprocess.run([ASL,'-q','a.asm'],cwd=d,capture_output=True,timeout=1.5,env={'LC_ALL':'C'})
        res='rc%d'%r.returncode
        if r.returncode: res+=':'+r.stdout.decode()[:0]+r.stderr.decode().split('\n')[0].split('error:')[-1].strip()
    except subprocess.TimeoutExpired:
        res='TIMEOUT'
    return seq,res
if __name__=='__main__':
    seqs=list(gen(int(sys.argv[1])))
    print(len(seqs),'programs')
    with Pool(16) as p: rs=p.map(run,seqs,chunksize=20)
    c=collections.Counter(r for _,r in rs)
    print(c)
    shown=collections.Counter()
    for s,r in rs:
        if r!='rc0' and shown[r]<6: shown[r]+=1; print(r,' '.join(s))
    shutil.rmtree(base)
