import os, subprocess, sys, tempfile, shutil, collections, hashlib
from multiprocessing import Pool
ASL='/tmp/bh/asl'; T='/repo/tests'
tests=sorted(t for t in os.listdir(T) if os.path.exists(os.path.join(T,t,t+'.asm')))
def flags(t):
    p=os.path.join(T,t,'asflags'); return open(p).readline().split() if os.path.exists(p) else []
base=tempfile.mkdtemp(dir='/dev/shm')
def one(t,extra):
    d=tempfile.mkdtemp(dir=base)
    for f in os.listdir(os.path.join(T,t)):
        if not f.endswith('.ori') and f!='asflags' and not f.endswith('.doc'): shutil.copy(os.path.join(T,t,f),d)
    env={'LC_ALL':'C','ASL_VERIF_TRACE':'tr.txt','ASL_VERIF_MAX_PASSES':'60'}
    if extra: env['ASL_VERIF_EXTRA_PASSES']=str(extra)
    r=subprocess.run([ASL]+flags(t)+['-q','-i','/repo/include',t+'.asm'],cwd=d,capture_output=True,env=env,timeout=120)
    h=hashlib.sha1(open(d+'/'+t+'.p','rb').read()).hexdigest() if os.path.exists(d+'/'+t+'.p') else None
    tr=open(d+'/tr.txt').read().split('\n') if os.path.exists(d+'/tr.txt') else []
    shutil.rmtree(d); return r.returncode,h,[l for l in tr if l]
def run(t):
    a=one(t,0); b=one(t,1)
    res='ok'
    if a[0]!=0: res='rc%d'%a[0]
    elif b[0]!=0: res='extra rc%d'%b[0]
    elif a[1]!=b[1]: res='P-DIFF'
    elif a[2][-1].split()[-1]!=b[2][-1].split()[-1]: res='SYM-DIFF'
    return t,res,len(a[2])
if __name__=='__main__':
    with Pool(16) as p: rs=p.map(run,tests)
    print(collections.Counter(r for _,r,_ in rs)); print('passes histogram',collections.Counter(n for _,_,n in rs))
    for t,r,n in rs:
        if r!='ok': print(t,r,n)
    shutil.rmtree(base)
