"""C15 - disassembling and re-assembling reproduces the original bytes.

Two exhaustive generators per CPU (6800, 87C00, 4004):
 (a) disassembler-driven: every image b0 b1 b2 (every opcode x boundary second/third bytes) loaded at $100 with entry $100:
     X -> T = dasl(X); if asl accepts T, Y = asl(T) is by construction an image the assembler produced from a valid program, so the
     property applies to Y: asl(dasl(Y)) == Y over the areas dasl reports as disassembled; areas disjoint and inside the image.
 (b) assembler-driven: every branch / call mnemonic at every distance around both displacement limits (and around ROM page
     boundaries for the 4004), embedded data reached only as data, via -binfile and via an Intel-hex rendering (-hexfile).
"""
import itertools, re
from .. import core
from ..fmt import pfile

ID = 'C15'
LEVEL = 'model_checking'
VARIANTS = ['plain']
CHUNK = 8
ENGINE = 'product-enumerator'
TECHNIQUE = 'exhaustive 3-byte images and branch-distance programs round-tripped through the real dasl and asl'
LEVEL_TEXT = ('For each of the three DASL targets every image (opcode x 6 second bytes x 3 third bytes) and every branch/call mnemonic at every '
              'distance in the boundary sets (page positions FD/FE/FF/00 for the 4004) is disassembled from its entry point, re-assembled, and - '
              'for images the assembler itself produced - disassembled and re-assembled again; bytes must be identical over the reported '
              'areas, which must be disjoint and inside the image. Loading via -binfile and via Intel hex is compared.'
              ' Every form of the 6800 and 4004 reference tables of C14 and every statement of the golden sources of the three targets is round-tripped as a one-instruction program (assembler-driven, so a consistent mis-decoding cannot hide behind normalisation); Intel-hex records are also presented in descending order.'
              ' Programs with 255-byte hex records, code running up to the last address, extended addressing forced onto direct-page addresses and jump-like bytes behind return instructions are included.')
LEVEL_NOTE = ('Trusted: asl as producer of the "valid program" images (its encodings are the subject of C14). Where DASL output is rejected by '
              'the strict target syntax, the round trip is continued under RELAXED ON so that byte-level defects stay visible; the rejection '
              'itself is reported with its own signature.')
RULE = 'image or program; non-trivial = the image re-assembles'
BOUNDS = {'quick': 'images b1 in {00,7F,80,FE,FF}, b2 in {00,FF}; branch programs', 'thorough': 'b1 in 6 values x b2 in 3 values; more distances'}
ASSUMPTIONS = ['an image the assembler produced from text it accepted is "an image of a valid program"']

CPUS = {'6800': '6800', '87C00': '87c00', '4004': '4004'}
BASE = 0x100


def asm_image(cpu, text, relaxed, lo, hi):
    core.fresh()
    core.put('y.asm', '\tcpu %s\n%s%s' % (CPUS[cpu], '\trelaxed on\n' if relaxed else '', text))
    o = core.run('asl', ['-q', 'y.asm'])
    if core.crashkind(o):
        return None, 'CRASH ' + str(core.crashkind(o))
    p = core.get('y.p')
    if o.rc != 0 or p is None:
        m = re.search(r'error[^:]*: *([^\n]*)', (o.out + o.err).decode('latin-1'))
        return None, (m.group(1) if m else 'rc=%s' % o.rc)[:50]
    mem = {}
    for r in pfile.data_records(pfile.read(p)):
        for i, b in enumerate(r.data):
            mem[r.start + i] = b
    return mem, ''


def dasl(cpu, mem, via='bin', entries=None):
    lo, hi = min(mem), max(mem)
    img = bytes(mem.get(a, 0) for a in range(lo, hi + 1))
    core.put('i.bin', img)
    args = ['-cpu', cpu]
    if via == 'bin':
        args += ['-binfile', 'i.bin@%d' % lo]
    else:
        # Intel hex rendering of the same image
        lines = []
        rl = 255 if via == 'hexlong' else 16      # (255 data bytes: the longest record the format allows)
        for off in range(0, len(img), rl):
            ch = img[off:off + rl]
            a = lo + off
            rec = bytes([len(ch), a >> 8 & 0xff, a & 0xff, 0]) + ch
            lines.append(':' + rec.hex().upper() + '%02X' % ((-sum(rec)) & 0xff))
        if via == 'hexrev':
            lines.reverse()          # records need not come in ascending address order (a later ORG block below an earlier one)
        lines.append(':00000001FF')
        core.put('i.hex', '\n'.join(lines) + '\n')
        args += ['-hexfile', 'i.hex']
    for e in (entries or [lo]):
        args += ['-entryaddress', '%d' % e]
    o = core.run('dasl', args, timeout=10)
    return o


def clean(text):
    return '\n'.join(l for l in text.split('\n') if not l.startswith('indirect address')) + '\n'


def areas(txt):
    out = []
    for m in re.finditer(r';\s*([0-9A-Fa-f]+)(?:\.\.\.([0-9A-Fa-f]+))?\s*\((code|data)\)', txt):
        lo = int(m.group(1), 16)
        out.append((lo, int(m.group(2), 16) if m.group(2) else lo, m.group(3)))
    return out


def roundtrip(cpu, mem, tag, via='bin', entries=None, must=True, leaves_ok=False, must_cover=()):
    """mem is an assembler-produced image: the property applies.  Returns R."""
    o = dasl(cpu, mem, via, entries)
    ck = core.crashkind(o)
    d = '%s image %s at %x (%s)' % (cpu, bytes(mem[a] for a in sorted(mem)).hex()[:80], min(mem), tag)
    if ck:
        return core.R(False, ck, '%s/dasl-%s' % (cpu, 'hang' if ck == 'HANG' else 'crash'), '%s in dasl on %s' % (ck, d))
    if o.rc != 0:
        return core.R(False, 'dasl-rc', '%s/dasl-status' % cpu, 'dasl exit %s on %s' % (o.rc, d))
    T = clean(o.out.decode('latin-1'))
    refs = set(re.findall(r'\b((?:lab|sub)_[0-9A-Fa-f]+h?)\b', T))
    defs = set(re.findall(r'^((?:lab|sub)_[0-9A-Fa-f]+h?):', T, re.M))
    if leaves_ok and refs - defs:
        # a jump or call out of the loaded image: outside the property (branches and calls lead into the image)
        return core.R(True, 'leaves-the-image', nontrivial=False, transitions=1)
    ar = areas(T)
    lo, hi = min(mem), max(mem)
    cover = {}
    for a, b, kind in ar:
        if a < lo or b > hi:
            return core.R(False, 'areas', '%s/area-outside-image' % cpu, 'area %x...%x (%s) outside the loaded image %x...%x on %s' % (a, b, kind, lo, hi, d))
        for x in range(a, b + 1):
            if x in cover:
                return core.R(False, 'areas', '%s/areas-overlap' % cpu, 'address %x is reported in two areas on %s' % (x, d))
            cover[x] = kind
    miss = [x for x in must_cover if cover.get(x) != 'code']
    if miss:
        return core.R(False, 'not-followed', '%s/straight-line-successor-not-disassembled' % cpu, 'addresses %s follow disassembled instructions without a jump but are not listed as code on %s\n%s' % ([hex(x) for x in miss[:4]], d, T[-300:]))
    Z, err = asm_image(cpu, T, False, lo, hi)
    strict_err = None
    if Z is None:
        strict_err = err
        Z, err2 = asm_image(cpu, T, True, lo, hi)
        if Z is None:
            slug = re.sub(r'[^a-z]+', '-', err.lower()).strip('-')[:30]
            return core.R(False, 'reassembly-rejected', '%s/reassembly-rejected/%s' % (cpu, slug), 'asl rejects the disassembly (%s) of %s\n%s' % (err, d, T[:300]), transitions=3)
    bad = [x for x in cover if Z.get(x) != mem.get(x, 0)]     # gaps of the image are loaded as 0
    if bad:
        return core.R(False, 'bytes-differ', '%s/bytes-differ' % cpu, 're-assembled bytes differ at %s: %s vs %s on %s\n%s' % ([hex(x) for x in bad[:4]], [Z.get(x) for x in bad[:4]], [mem.get(x, 0) for x in bad[:4]], d, T[:300]), transitions=3)
    if strict_err is not None:
        slug = re.sub(r'[^a-z]+', '-', strict_err.lower()).strip('-')[:30]
        return core.R(False, 'needs-relaxed', '%s/accepted-only-with-relaxed-on/%s' % (cpu, slug), 'asl accepts the disassembly only under RELAXED ON (%s): %s\n%s' % (strict_err, d, T[:200]), transitions=3)
    return core.R(True, 'round-trip-ok', states=['%s/%d' % (cpu, len(cover))], transitions=3)


# ---- generators ----------------------------------------------------------------------------------

BR6800 = ['bra', 'bne', 'beq', 'bcc', 'bcs', 'bpl', 'bmi', 'bvc', 'bvs', 'bge', 'blt', 'bgt', 'ble', 'bhi', 'bls', 'bsr']


def corpus_line_programs():
    """every statement of the golden sources of the three targets as a one-instruction program (label `targ` in front, so that
    branches lead into the image; statements the assembler rejects in isolation drop out as program-invalid)"""
    import os
    from .. import corpus
    for t, cpu, tail, head in (('t_87c800', '87C00', '\tret\n', ''), ('t_4004', '4004', '\tnop\n\tbbl 0\n', ''), ('t_6801', '6800', '\tswi\n', '')):
        try:
            lines = open(os.path.join(corpus.tdir(), t, t + '.asm'), 'rb').read().decode('latin-1').split('\n')
        except OSError:
            continue
        seen = set()
        for l in lines:
            m = re.match(r'^(?:\w+:?)?\s+([a-z][\w.]*)(\s+[^;]*)?', l)
            if not m or m.group(1).lower() in ('cpu', 'include', 'page', 'org', 'end', 'db', 'dw', 'equ', 'fcb', 'fdb', 'ds', 'rmb', 'data', 'segment', 'assume', 'irp', 'endm', 'macro', 'rept'):
                continue
            stmt = (m.group(1) + (m.group(2) or '')).strip()
            if stmt in seen:
                continue
            seen.add(stmt)
            yield {'k': 'prog', 'cpu': cpu, 'src': '\torg 256\ntarg:\tnop\n\t%s\n%s' % (stmt, tail), 'tag': '%s: %s' % (t, stmt), 'entries': [257], 'leaves_ok': True}


def table_programs():
    """every form of the M6800 reference table of C14 (mc/isa.py) that is not placed by its own ORG, as a one-instruction program"""
    from .. import isa
    for x in isa.forms_6800():
        if x['want'] == 'ERR' or 'at' in x or x['sig'] in ('6800/JMP ext', '6800/JSR ext'):
            continue          # (jumps and calls must lead into the image: covered by programs())
        yield {'k': 'prog', 'cpu': '6800', 'src': '\torg $100\n%s\n\tswi\n' % x['line'], 'tag': x['line'].strip()}
    # the extended form forced onto a direct-page address: the disassembly must ask for it again
    for mn in sorted(set(x['line'].split()[0] for x in isa.forms_6800() if x['sig'].endswith(' dir'))):
        for a in ('0', '$20', '$ff'):
            yield {'k': 'prog', 'cpu': '6800', 'src': '\torg $100\n\t%s >%s\n\tswi\n' % (mn, a), 'tag': '%s >%s' % (mn, a)}
    for x in isa.forms_4004():
        if x['want'] == 'ERR' or 'at' in x or '\n' in x['line'].strip() or x['line'].split()[0] in ('jun', 'jms', 'jcn', 'isz'):
            continue          # (jumps must lead into the image: covered by programs())
        yield {'k': 'prog', 'cpu': '4004', 'src': '\torg 256\n%s\n\tnop\n\tbbl 0\n' % x['line'], 'tag': x['line'].strip()}


def programs(tier):
    q = tier == 'quick'
    back = [2, 3, 125, 126] if q else [2, 3, 4, 60, 124, 125, 126]
    fwd = [0, 1, 126, 127] if q else [0, 1, 2, 64, 125, 126, 127]
    for mn in BR6800:
        for n in back:      # branch back over n filler bytes: displacement = -(n+2)
            yield {'k': 'prog', 'cpu': '6800', 'src': '\torg $100\nl:%s\t%s l\n\tswi\n' % ('\tnop\n' * n, mn), 'tag': '%s back %d' % (mn, n + 2)}
        for n in fwd:
            yield {'k': 'prog', 'cpu': '6800', 'src': '\torg $100\n\t%s l\n%sl:\tnop\n\tswi\n' % (mn, '\tnop\n' * n), 'tag': '%s fwd %d' % (mn, n)}
    # a straight run longer than one maximum-length hex record
    yield {'k': 'prog', 'cpu': '6800', 'src': '\torg $100\n' + '\tnop\n\tinx\n' * 150 + '\tswi\n', 'tag': '300 one-byte instructions'}
    # code that runs up to the last address: the successor address wraps to 0
    yield {'k': 'prog', 'cpu': '6800', 'src': '\torg 0\n\tswi\n\torg $fffc\n\tnop\n\tinx\n\tnop\n\tnop\n', 'tag': 'run to $ffff', 'entries': [0xfffc], 'must_cover': [0xfffc, 0xfffd, 0xfffe, 0xffff, 0]}
    yield {'k': 'prog', 'cpu': '4004', 'src': '\torg 0\n\tbbl 0\n\torg 4092\n\tnop\n\tiac\n\tnop\n\tnop\n', 'tag': 'run to $fff', 'entries': [4092], 'must_cover': [4092, 4093, 4094, 4095, 0]}
    yield {'k': 'prog', 'cpu': '87C00', 'src': '\torg 0\n\tret\n\torg 0fffch\n\tnop\n\tnop\n\tnop\n\tnop\n', 'tag': 'run to $ffff', 'entries': [0xfffc], 'must_cover': [0xfffc, 0xfffd, 0xfffe, 0xffff, 0]}
    # one address reached by a call AND by a jump or branch (a tail call): it has one name in the output
    for a, b in (('bsr', 'jmp'), ('jsr', 'bra'), ('jmp', 'jsr'), ('bne', 'bsr'), ('jsr', 'jmp'), ('bsr', 'bsr')):
        yield {'k': 'prog', 'cpu': '6800', 'src': '\torg $100\n\t%s twice\n\tnop\n\t%s twice\n\tnop\ntwice:\tinx\n\trts\n' % (a, b), 'tag': 'target of %s and %s' % (a, b)}
    for a, b in (('call', 'jp'), ('jp', 'call'), ('call', 'jrs t,'), ('jr z,', 'call')):
        yield {'k': 'prog', 'cpu': '87C00', 'src': '\torg 256\n\t%s twice\n\tnop\n\t%s twice\n\tnop\ntwice:\tinc a\n\tret\n' % (a if a.endswith(',') else a + ' ', b if b.endswith(',') else b + ' '), 'tag': 'target of %s and %s' % (a, b)}
    for a, b in (('jms', 'jun'), ('jun', 'jms')):
        yield {'k': 'prog', 'cpu': '4004', 'src': '\torg 256\n\t%s twice\n\tnop\n\t%s twice\n\tnop\ntwice:\tiac\n\tbbl 0\n' % (a, b), 'tag': 'target of %s and %s' % (a, b)}
    # data reached only as data, several entry points
    yield {'k': 'prog', 'cpu': '6800', 'src': '\torg $100\n\tldaa tab\n\tldx #tab\n\tjmp fin\ntab:\tfcb 1,2,3\nfin:\tswi\n', 'tag': 'data'}
    yield {'k': 'prog', 'cpu': '6800', 'src': '\torg $100\ne1:\tnop\n\trts\ne2:\tclra\n\trts\ne3:\tjsr e1\n\trts\n', 'tag': 'entries', 'entries': [0x100, 0x102, 0x104]}
    # entry point INSIDE a loop: the loop head is found later through the backward branch and runs into the block found first
    # (used areas are merged downwards), with 0..3 instructions in front of the entry and a branch target near the end
    for pre in range(0, 4):
        head = ['\tinx', '\tstaa $40', '\tdecb'][:pre]
        src = '\torg $100\nloop:%s\nentry:\tldaa $41\n\tbeq done\n\tdecb\n\tbne loop\ndone:\trts\n' % ('\n'.join(head) if head else '\tnop')
        ent = 0x100 + sum({'\tinx': 1, '\tstaa $40': 2, '\tdecb': 1}[h] for h in head) + (0 if head else 1)
        yield {'k': 'prog', 'cpu': '6800', 'src': src, 'tag': 'entry inside a loop, %d instructions before it' % pre, 'entries': [ent]}
    yield {'k': 'prog', 'cpu': '87C00', 'src': '\torg 256\nloop:\tinc a\n\tnop\nentry:\tdec b\n\tjr z,done\n\tnop\n\tjr t,loop\ndone:\tret\n', 'tag': 'entry inside a loop', 'entries': [0x102]}
    # 4004: page-relative jumps around the page end
    for pos in (0xf8, 0xfd, 0xfe, 0xff, 0x100, 0x1fe):
        for kind in ('jcn z,', 'isz r3,'):
            nxt = (pos + 2) & 0xf00
            for tgt in (nxt + 4, nxt + 0x80):
                src = '\torg 0\n\tnop\n\torg %d\n\t%st\n\tnop\n\torg %d\nt:\tnop\n\tjun 0\n' % (pos, kind, tgt) if tgt > pos else '\torg 0\n\tnop\n\torg %d\nt:\tnop\n\torg %d\n\t%st\n\tjun 0\n' % (tgt, pos, kind)
                yield {'k': 'prog', 'cpu': '4004', 'src': src, 'tag': '%s at %x -> %x' % (kind, pos, tgt), 'entries': [pos]}
    for body in ('targ:\tnop\n\tjrs t,targ\n\tret\n', '\tjrs t,targ\n\tnop\ntarg:\tret\n', '\tjp targ\n\tnop\ntarg:\tnop\n\tret\n', '\tcall targ\n\tret\ntarg:\tret\n',
                 'targ:\tnop\n\tjr z,targ\n\tret\n', '\tjr nz,targ\n\tnop\ntarg:\tret\n', '\tld a,(40h)\n\tret\n\tdb 1,2\n',
                 'targ:' + '\tnop\n' * 126 + '\tjr z,targ\n\tret\n', '\tjr z,targ\n' + '\tnop\n' * 127 + 'targ:\tret\n'):
        yield {'k': 'prog', 'cpu': '87C00', 'src': '\torg 256\n' + body, 'tag': body.replace('\n', ' / ').replace('\t', ' ')}
    # what stands behind a return is not reached through it: bytes there that look like a jump out of the image must not be followed
    for ret in ('ret', 'reti', 'retn'):
        yield {'k': 'prog', 'cpu': '87C00', 'src': '\torg 256\n\tinc a\n\t%s\n\tjp 1234h\n\tcall 2345h\n' % ret, 'tag': 'unreachable jump behind %s' % ret}
    yield {'k': 'prog', 'cpu': '6800', 'src': '\torg $100\n\tinx\n\trts\n\tjmp $1234\n', 'tag': 'unreachable jump behind rts'}
    yield {'k': 'prog', 'cpu': '6800', 'src': '\torg $100\n\tinx\n\trti\n\tjsr $1234\n', 'tag': 'unreachable call behind rti'}
    yield {'k': 'prog', 'cpu': '4004', 'src': '\torg 256\n\tiac\n\tbbl 1\n\tjun 0e00h\n', 'tag': 'unreachable jump behind bbl'}
    # 87C00 register-relative operands at both ends of the signed displacement byte
    for d in (-128, -127, -1, 0, 1, 126, 127):
        for form in ('ld a,(hl%+d)', 'inc (hl%+d)', 'ld (hl%+d),a', 'ld a,(ix%+d)', 'ld (iy%+d),a', 'dec (ix%+d)', 'ld a,(sp%+d)', 'cmp a,(hl%+d)', 'ld wa,(ix%+d)'):
            yield {'k': 'prog', 'cpu': '87C00', 'src': '\torg 256\n\t%s\n\tret\n%s' % (form % d, '\tnop\n' * 18), 'tag': form % d}
    for kind in ('jun', 'jms'):
        for tgt in (0x104, 0x1ff, 0x200):
            yield {'k': 'prog', 'cpu': '4004', 'src': '\torg 256\n\t%s t\n\tnop\n\torg %d\nt:\tnop\n\tbbl 0\n' % (kind, tgt), 'tag': '%s -> %x' % (kind, tgt)}


def subspaces(tier):
    q = tier == 'quick'
    b1s = [0x00, 0x7f, 0x80, 0xfe, 0xff] if q else [0x00, 0x01, 0x7f, 0x80, 0xfe, 0xff]
    b2s = [0x00, 0xff] if q else [0x00, 0x80, 0xff]
    subs = []
    def images(cpu):
        for a in range(256):
            for b in b1s:
                for c in b2s:
                    yield {'k': 'img', 'cpu': cpu, 'img': [a, b, c]}
    for cpu in CPUS:
        subs.append(('a:images-%s' % cpu, images(cpu)))
    subs.append(('b:branch-distance-programs', list(programs(tier))))
    subs.append(('c:every-6800-and-4004-instruction-form', list(table_programs())))
    subs.append(('d:every-statement-of-the-golden-sources', list(corpus_line_programs())))
    return subs


def describe(case):
    return case


def evaluate(case):
    cpu = case['cpu']
    if case['k'] == 'img':
        X = {BASE + i: b for i, b in enumerate(case['img'])}
        core.fresh()
        o = dasl(cpu, X)
        ck = core.crashkind(o)
        if ck:
            grp = cpu
            if cpu == '87C00' and 0xec <= case['img'][0] <= 0xef and case['img'][1] == 0xfe:
                grp += '/relative-jump-to-itself'
            return core.R(False, ck, '%s/dasl-%s' % (grp, 'hang' if ck == 'HANG' else 'crash'), '%s in dasl on image %s' % (ck, bytes(case['img']).hex()))
        T = clean(o.out.decode('latin-1'))
        Y, err = asm_image(cpu, T, True, BASE, BASE + 2)
        if Y is None or not Y:
            # X is not an image of a valid program (nothing at all was decoded when the first instruction reaches past the image)
            return core.R(True, 'X-not-reassemblable', nontrivial=False, transitions=2)
        r = roundtrip(cpu, Y, 'normalised from %s' % bytes(case['img']).hex())
        return r
    # assembler-driven
    Y, err = asm_image(cpu, case['src'], False, 0, 0)
    if Y is None:
        return core.R(True, 'program-invalid', nontrivial=False)
    r = roundtrip(cpu, Y, case['tag'], 'bin', case.get('entries'), leaves_ok=case.get('leaves_ok', False), must_cover=case.get('must_cover', ()))
    if not r['ok'] or r['outcome'] == 'leaves-the-image':
        return r
    r2 = roundtrip(cpu, Y, case['tag'] + ' via hex', 'hex', case.get('entries'))
    if not r2['ok']:
        r2['sig'] += '/hexfile'
        return r2
    r3 = roundtrip(cpu, Y, case['tag'] + ' via hex, records in descending order', 'hexrev', case.get('entries'))
    if not r3['ok']:
        r3['sig'] += '/hexfile-descending-records'
        return r3
    if len(Y) > 16:
        r4 = roundtrip(cpu, Y, case['tag'] + ' via hex, records of 255 bytes', 'hexlong', case.get('entries'))
        if not r4['ok']:
            r4['sig'] += '/hexfile-long-records'
            return r4
    r['transitions'] = 9
    return r
