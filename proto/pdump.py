import sys, struct
GRAN2={0x36,0x70,0x71,0x72,0x74,0x75,0x77,0x12,0x6d}; GRAN4={0x09,0x76,0x7d}; GRANC={0x3b,0x1a,0x1b,0x1c,0x1d}
def parse(b):
    assert b[:2]==b'\x89\x14', 'magic'
    i=2; recs=[]
    while True:
        h=b[i]; i+=1
        if h==0: recs.append(('end',b[i:])); break
        if h==0x80:
            recs.append(('entry',struct.unpack('<I',b[i:i+4])[0])); i+=4; continue
        if h in (0x81,0x82,0x83,0x84):
            cpu,seg,gran=b[i],b[i+1],b[i+2]; i+=3
        elif h<0x80:
            cpu=h; seg=1; gran=4 if cpu in GRAN4 else 2 if cpu in GRAN2 or cpu in GRANC else 1
        else: raise Exception('hdr %x'%h)
        start,ln=struct.unpack('<IH',b[i:i+6]); i+=6
        recs.append(('data',h,cpu,seg,gran,start,ln,b[i:i+ln])); i+=ln
    return recs
if __name__=='__main__':
    for r in parse(open(sys.argv[1],'rb').read()):
        if r[0]=='data': print('data hdr=%02x cpu=%02x seg=%d gran=%d start=%x len=%d %s'%(r[1],r[2],r[3],r[4],r[5],r[6],r[7][:24].hex()))
        else: print(r)
