"""Independent reader/writer of AS code files, written from doc/file-formats.md only.

magic $1489 (bytes 89 14); records: $00 creator (to end of file), $01..$7f short data record
(family = header, segment CODE, implicit granularity), $80 entry point (4 bytes LE),
$81 long data record (family, segment, gran, start LE32, length LE16 in BYTES, data).
Start addresses are in units of the granularity, lengths always in bytes.
"""
import struct

SEGNAMES = {0: '<undefined>', 1: 'CODE', 2: 'DATA', 3: 'IDATA', 4: 'XDATA', 5: 'YDATA', 6: 'BDATA',
            7: 'IO', 8: 'REG', 9: 'ROMDATA', 10: 'EEDATA'}
# implicit granularity of short-header records (processor type's code granularity, rounded up to 2^k)
GRAN2 = {0x36, 0x70, 0x71, 0x72, 0x74, 0x75, 0x77, 0x12, 0x6d, 0x3b, 0x1a, 0x1b, 0x1c, 0x1d, 0x4b, 0x0a, 0x5a, 0x4f}
GRAN4 = {0x09, 0x76, 0x7d, 0x7e, 0x7f, 0x5c}


class FormatError(Exception):
    pass


class Rec(object):
    __slots__ = 'kind hdr cpu seg gran start data entry creator off'.split()

    def __init__(self, kind, **kw):
        for s in self.__slots__:
            setattr(self, s, None)
        self.kind = kind
        for k, v in kw.items():
            setattr(self, k, v)

    def key(self):
        if self.kind == 'data':
            return ('data', self.cpu, self.seg, self.gran, self.start, bytes(self.data))
        if self.kind == 'entry':
            return ('entry', self.entry)
        return ('creator',)

    def __repr__(self):
        if self.kind == 'data':
            return 'data(hdr=%02x cpu=%02x seg=%d gran=%d start=%x len=%d)' % (self.hdr, self.cpu, self.seg, self.gran, self.start, len(self.data))
        return '%s(%r)' % (self.kind, self.entry if self.kind == 'entry' else self.creator)


def implicit_gran(cpu):
    return 4 if cpu in GRAN4 else 2 if cpu in GRAN2 else 1


def read(b, strict=True):
    """Parse a code file; raises FormatError on anything the documented format does not allow."""
    if len(b) < 2 or b[0] != 0x89 or b[1] != 0x14:
        raise FormatError('bad magic')
    i = 2
    recs = []
    n = len(b)
    while True:
        if i >= n:
            raise FormatError('no creator record (end of file at %d)' % i)
        h = b[i]
        off = i
        i += 1
        if h == 0:
            recs.append(Rec('creator', creator=bytes(b[i:]), off=off))
            return recs
        if h == 0x80:
            if i + 4 > n:
                raise FormatError('truncated entry record')
            recs.append(Rec('entry', entry=struct.unpack('<I', b[i:i + 4])[0], off=off))
            i += 4
            continue
        if h == 0x81:
            if i + 3 > n:
                raise FormatError('truncated long header')
            cpu, seg, gran = b[i], b[i + 1], b[i + 2]
            i += 3
        elif h < 0x80:
            cpu, seg, gran = h, 1, implicit_gran(h)
        else:
            raise FormatError('unknown record type %02x at %d' % (h, off))
        if i + 6 > n:
            raise FormatError('truncated record header')
        start, ln = struct.unpack('<IH', b[i:i + 6])
        i += 6
        if i + ln > n:
            raise FormatError('record length beyond end of file')
        if strict:
            if gran not in (1, 2, 4, 8):
                raise FormatError('granularity %d' % gran)
            if ln % gran:
                raise FormatError('length %d not a multiple of granularity %d' % (ln, gran))
            if seg not in SEGNAMES:
                raise FormatError('segment %d' % seg)
        recs.append(Rec('data', hdr=h, cpu=cpu, seg=seg, gran=gran, start=start, data=bytes(b[i:i + ln]), off=off))
        i += ln


def classify(b):
    """What the documented format says about an arbitrary byte string."""
    try:
        read(b)
        return 'ok'
    except FormatError as e:
        return str(e)


def data_records(recs):
    return [r for r in recs if r.kind == 'data']


def bytemap(recs, seg=None):
    """{(seg, byte address in units*gran + k): byte}; raises on duplicates."""
    m = {}
    for r in data_records(recs):
        if seg is not None and r.seg != seg:
            continue
        for k, v in enumerate(r.data):
            key = (r.seg, r.start * r.gran + k)
            if key in m:
                raise FormatError('address %x of segment %d covered twice' % (key[1], r.seg))
            m[key] = v
    return m


def write(recs, creator=b'verif'):
    """recs: list of dicts: {'kind':'data','cpu':..,'seg':..,'gran':..,'start':..,'data':bytes,'short':bool} | {'kind':'entry','entry':n}"""
    out = bytearray(b'\x89\x14')
    for r in recs:
        if r['kind'] == 'entry':
            out += b'\x80' + struct.pack('<I', r['entry'] & 0xffffffff)
        else:
            if r.get('short'):
                out.append(r['cpu'])
            else:
                out += bytes([0x81, r['cpu'], r.get('seg', 1), r.get('gran', 1)])
            out += struct.pack('<IH', r['start'] & 0xffffffff, len(r['data'])) + bytes(r['data'])
    out += b'\x00' + creator
    return bytes(out)
