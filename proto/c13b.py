import itertools, os, subprocess, sys, tempfile, shutil, collections, struct
from multiprocessing import Pool
sys.path.insert(0,'/tmp/w/s')
from pdump import parse
ASL='/repo/_build/asl'
# ops: definitions emit one byte each (nop) so that addresses differ; references emit dw
OPS=['d+','d-','d/','dN','r-','r--','r---','r+','r++','r+++']
def render(seq):
    out=['\tcpu 6502','\torg $1000']
    k=0
    for i,op in enumerate(seq):
        if op=='d+': out.append('+\tnop')
        elif op=='d-': out.append('-\tnop')
        elif op=='d/': out.append('/\tnop')
        elif op=='dN': out.append('lab%d:\tnop'%i)
        else: out.append('\tadr %s'%op[1:])
    return '\n'.join(out)+'\n'
def model(seq):
    """returns list of expected values (or None=undefined) per reference, in order; addresses computed: def=1 byte, ref=2 bytes"""
    pc=0x1000; addr=[]
    for op in seq:
        addr.append(pc); pc+=1 if op[0]=='d' else 2
    res=[]
    for i,op in enumerate(seq):
        if op[0]!='r': continue
        n=len(op)-1
        if op[1]=='-':
            c=[addr[j] for j in range(i-1,-1,-1) if seq[j] in('d-','d/')]
        else:
            c=[addr[j] for j in range(i+1,len(seq)) if seq[j] in('d+','d/')]
        res.append(c[n-1] if len(c)>=n else None)
    return res,addr
base=tempfile.mkdtemp(dir='/dev/shm')
def run(seq):
    d=os.path.join(base,str(os.getpid())); os.makedirs(d,exist_ok=True)
    if os.path.exists(d+'/a.p'): os.unlink(d+'/a.p')
    open(d+'/a.asm','w').write(render(seq))
    r=subprocess.run([ASL,'-q','a.asm'],cwd=d,capture_output=True,env={'LC_ALL':'C'},timeout=5)
    exp,addr=model(seq)
    if any(e is None for e in exp):
        return seq,('ok-err' if r.returncode==2 else 'UNDEF-ACCEPTED rc%d'%r.returncode)
    if r.returncode!=0: return seq,'rc%d %s'%(r.returncode,r.stderr.decode().split('\n')[0][-50:])
    mem={}
    for x in parse(open(d+'/a.p','rb').read()):
        if x[0]=='data':
            for i,b in enumerate(x[7]): mem[x[5]+i]=b
    got=[]
    for i,op in enumerate(seq):
        if op[0]=='r': got.append(mem[addr[i]]|(mem[addr[i]+1]<<8))
    return seq,('ok' if got==exp else 'VALUES got %s want %s'%([hex(g) for g in got],[hex(e) for e in exp]))
if __name__=='__main__':
    n=int(sys.argv[1])
    seqs=[s for k in range(1,n+1) for s in itertools.product(OPS,repeat=k) if any(o[0]=='r' for o in s)]
    print(len(seqs),'programs')
    with Pool(16) as p: rs=p.map(run,seqs,chunksize=50)
    c=collections.Counter(r.split(' got')[0][:40] for _,r in rs); print(c)
    sh=collections.Counter()
    for s,r in rs:
        k=r.split(' ')[0]
        if not r.startswith('ok') and sh[k]<6: sh[k]+=1; print(' '.join(s),'|',r[:120])
    shutil.rmtree(base)
