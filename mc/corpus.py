"""The golden corpus /repo/tests/<t>/<t>.asm (+ asflags, include files, recorded <t>.ori)."""
import os, shutil
from . import build, core


def tdir():
    return os.path.join(build.REPO, 'tests')


def tests():
    T = tdir()
    return sorted(t for t in os.listdir(T) if os.path.exists(os.path.join(T, t, t + '.asm')) and os.path.exists(os.path.join(T, t, t + '.ori')))


def flags(t):
    p = os.path.join(tdir(), t, 'asflags')
    if os.path.exists(p):
        return open(p).readline().split()
    return []


def incdir():
    return os.path.join(build.REPO, 'include')


def prep(t, d=None):
    """copy the test's sources (not .ori/.doc/asflags) into the scratch directory"""
    d = d or core.workdir()
    src = os.path.join(tdir(), t)
    for f in os.listdir(src):
        if f.endswith('.ori') or f == 'asflags' or f.endswith('.doc'):
            continue
        p = os.path.join(src, f)
        if os.path.isdir(p):
            shutil.copytree(p, os.path.join(d, f), dirs_exist_ok=True)
        else:
            shutil.copy(p, d)


def ori(t):
    return open(os.path.join(tdir(), t, t + '.ori'), 'rb').read()
