#!/usr/bin/env python3
"""Runs every seeded change under /verif/seeded against the quick check of the property it breaks (in a scratch worktree,
equivalent to `git -C /repo apply` + check + `git checkout -- .`) and records the outcome in its meta.json."""
import json, os, re, subprocess, sys
ROOT = os.path.dirname(os.path.dirname(os.path.abspath(__file__)))
BASES = {}   # name -> base commit when the patch no longer applies on HEAD because a later fix: commit rewrote the patched code
only = sys.argv[1:]
head = subprocess.run(['git', '-C', '/repo', 'rev-parse', '--short', 'HEAD'], capture_output=True, text=True).stdout.strip()
for name in sorted(os.listdir(os.path.join(ROOT, 'seeded'))):
    if only and name not in only:
        continue
    d = os.path.join(ROOT, 'seeded', name)
    meta = json.load(open(os.path.join(d, 'meta.json')))
    prop = meta['property']
    env = dict(os.environ, MUT_SLOT='3')
    base = meta.get('apply_on') or head
    # does the patch still apply on HEAD?
    chk = subprocess.run(['git', '-C', '/repo', 'apply', '--check', os.path.join(d, 'patch.diff')], capture_output=True)
    if chk.returncode != 0:
        base = meta['confirmed']['repo_commit']
        meta['apply_on'] = base
        meta['apply_note'] = 'no longer applies on the current tree: a later fix: commit rewrote the code it changes; run against its base commit'
    if base != head:
        env['MUT_BASE'] = base
    r = subprocess.run([os.path.join(ROOT, 'tools', 'try_mutant.sh'), os.path.join(d, 'patch.diff'), prop, 'quick'], capture_output=True, text=True, env=env)
    out = r.stdout
    m = re.search(r'violations: (\d+)', out)
    sigs = re.findall(r'signature=(\S+)', out)
    meta['detected_by'] = {prop: {'tier': 'quick', 'violations': int(m.group(1)) if m else None, 'signatures': sigs[:5], 'checked_at_repo_commit': base,
                                  'command': 'tools/try_mutant.sh seeded/%s/patch.diff %s quick' % (name, prop)}}
    json.dump(meta, open(os.path.join(d, 'meta.json'), 'w'), indent=1)
    print(name, prop, 'violations', m.group(1) if m else '?', sigs[:2], flush=True)
