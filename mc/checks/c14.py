"""C14 - machine instructions encode as the target's instruction set defines.

Reference encoders (mc/isa.py: declarative tables typed in from the manufacturers' instruction set summaries) generate
the COMPLETE form table of each modelled ISA with boundary operands per field and branches at every distance around both
displacement limits; each form is assembled by the real assembler (batched, with bisection) and its bytes compared;
operands outside the encodable range must be rejected.
"""
from .. import core, micro, isa

ID = 'C14'
LEVEL = 'model_checking'
VARIANTS = ['plain']
CHUNK = 1
ENGINE = 'product-enumerator'
TECHNIQUE = 'exhaustive instruction-form tables x boundary operands from independent reference encoders, executed on the real assembler'
LEVEL_TEXT = ('The complete documented form tables of the NMOS 6502 (151 opcodes) with the 65C02 additions, 8080/8085, 8051 (255 opcodes), M6800 (197 opcodes) with the M68HC11 additions, MC6809 indexed addressing, 4004, PIC16C84, Z80 (main, CB, ED, DD/FD displacement '
              'forms), the AVR classic core (I/O operands as numbers and as PORT-typed symbols) and the MSP430 (all formats, addressing modes, constant generators, emulated mnemonics, jumps) are expanded with operands 0, 1, limit-1, limit and just-out-of-range values, relative branches at '
              'every distance around both limits, page-relative 4004 jumps at the start, middle and last bytes of a ROM page, and illegal '
              'mode/register combinations adjacent to legal ones; every form is assembled and compared byte for byte, every out-of-range form '
              'must be rejected with an error naming its line.'
              ' MSP430 RLA/RLC in every destination mode and the AVR reduced core (16-bit LDS/STS) were added to the tables.'
              ' Added in the last round: AVR devices beyond 64K words; 6502 branches to labels at the limits; MSP430 RLA/RLC on absolute addresses and across the displacement sign change.')
LEVEL_NOTE = ('Trusted: the tables in mc/isa.py (typed from the ISA references, cross-validated by agreement with the unchanged tree; every '
              'disagreement was triaged). Not covered: undocumented opcodes, Z180/Z380/eZ80, MSP430X extensions, AVR mega extensions.')
RULE = 'one micro-case per instruction form; non-trivial = all'
BOUNDS = {'quick': 'all tables', 'thorough': 'all tables (identical; the space is complete)'}
ASSUMPTIONS = ['PIC/AVR code words are stored little-endian in the code file']


def subspaces(tier):
    subs = []
    for name, d in isa.ISAS.items():
        pre = ['\tcpu ' + d['cpu']] + d.get('pre', [])
        items = list(d['gen']())
        plain = [x for x in items if 'at' not in x]
        placed = [x for x in items if 'at' in x]

        def gen(pre=pre, plain=plain, placed=placed, slot=d['slot']):
            for b in micro.batches(pre, [], plain, 300, slot=slot):
                yield b
            for x in placed:
                yield {'k': 'batch', 'pre': pre, 'opts': [], 'items': [x], 'slot': slot}
        subs.append(('%s (%d forms)' % (name, len(items)), gen()))
    return subs


def describe(case):
    if case['k'] == 'batch':
        return [it['line'].strip() for it in case['items'][:4]]
    return case.get('line', '').strip()


def evaluate(case):
    return micro.evaluate_batch(case, lambda a: 'org %d' % a, lambda it: it.get('sig', '?'))
