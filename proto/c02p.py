import itertools, os, subprocess, sys, tempfile, shutil, collections, re
from multiprocessing import Pool
ASL='/repo/_build/asl'
K=['ok','err','rng','warn','perr','fatal','fwd']
SRC={'ok':'\tnop','err':'\tfoo','rng':'\tdb 300','warn':'\twarning "w"','perr':'\terror "e"','fatal':'\tfatal "f"','fwd':'\tdw later'}
OPTS=[[],['-Werror'],['-maxerrors','1'],['-maxerrors','2'],['-x'],['-x','-x'],['-n'],['-q'],['-E','err.log'],['-gnuerrors'],['-w']]
def model(seq,opt):
    werr='-Werror' in opt; mx=int(opt[1]) if opt and opt[0]=='-maxerrors' else 0
    nowarn='-w' in opt
    npass=2 if 'fwd' in seq else 1
    for ps in range(npass):
        e=w=0
        for k in seq:
            if k in('err','rng','perr'): e+=1
            elif k=='warn':
                if werr: e+=1
                else: w+=1
            elif k=='fatal': return dict(rc=3,p=False,e=None,w=None)
            if mx and e>=mx and k in('err','rng','perr','warn') and (k!='warn' or werr): return dict(rc=3,p=False,e=None,w=None)
        if e: break
    return dict(rc=2 if e else 0,p=(e==0),e=e,w=w)
base=tempfile.mkdtemp(dir='/dev/shm')
def run(job):
    seq,opt=job
    d=os.path.join(base,str(os.getpid())); os.makedirs(d,exist_ok=True)
    for f in ('a.p','err.log'):
        if os.path.exists(d+'/'+f): os.unlink(d+'/'+f)
    open(d+'/a.asm','w').write('\tcpu 8080\n'+'\n'.join(SRC[k] for k in seq)+'\nlater:\tnop\n')
    r=subprocess.run([ASL]+opt+['a.asm'],cwd=d,capture_output=True,env={'LC_ALL':'C'},timeout=5)
    m=model(seq,opt)
    if r.returncode!=m['rc']: return job,'RC got %d want %d'%(r.returncode,m['rc'])
    if os.path.exists(d+'/a.p')!=m['p']: return job,'PFILE got %s want %s'%(os.path.exists(d+'/a.p'),m['p'])
    if m['e'] is not None and '-q' not in opt:
        out=r.stdout.decode()
        me=re.search(r'(\d+) errors?',out); mw=re.search(r'(\d+) warnings?',out)
        if not me or int(me.group(1))!=m['e']: return job,'SUMMARY-ERR got %s want %d'%(me and me.group(1),m['e'])
        if not mw or int(mw.group(1))!=m['w']: return job,'SUMMARY-WARN got %s want %d'%(mw and mw.group(1),m['w'])
        ch=(open(d+'/err.log').read() if os.path.exists(d+'/err.log') else '') if '-E' in opt else r.stderr.decode()
        # count diagnostics in final pass: take text after last 'PASS' not available on stderr; count all and divide
        if '-gnuerrors' in opt: ne=None
        else:
            ne=len(re.findall(r': error',ch)); nw=len(re.findall(r': warning',ch))
    return job,'ok'
if __name__=='__main__':
    n=int(sys.argv[1])
    jobs=[(s,o) for k in range(1,n+1) for s in itertools.product(K,repeat=k) for o in OPTS]
    print(len(jobs),'jobs')
    with Pool(16) as p: rs=p.map(run,jobs,chunksize=50)
    c=collections.Counter(r.split(' got')[0] for _,r in rs); print(c.most_common())
    sh=collections.Counter()
    for j,r in rs:
        k=r.split(' got')[0]
        if r!='ok' and sh[k]<6: sh[k]+=1; print(j,r)
    shutil.rmtree(base)
