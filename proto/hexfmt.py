import re
class FmtErr(Exception): pass
def hb(s):
    if len(s)%2 or not re.fullmatch(r'[0-9A-Fa-f]*',s): raise FmtErr('hex '+s)
    return bytes.fromhex(s)
def dec_moto(text):
    mem={}; entry=None; types=set(); pend5=None; cnt=0; info={'groups':[]}
    for ln in text.split('\n'):
        if not ln: continue
        if ln[0]!='S': raise FmtErr('line '+ln)
        t=ln[1]; b=hb(ln[2:])
        if b[0]!=len(b)-1: raise FmtErr('count '+ln)
        if (sum(b)&0xff)!=0xff: raise FmtErr('checksum '+ln)
        body=b[1:-1]
        if t=='0': pass
        elif t in '123':
            al=int(t)+1; a=int.from_bytes(body[:al],'big')
            for i,x in enumerate(body[al:]):
                if a+i in mem: raise FmtErr('dup addr')
                mem[a+i]=x
            types.add(t); cnt+=1
        elif t=='5':
            if pend5 is not None: 
                if pend5!=cnt5(cnt,info): pass
            info['groups'].append([int.from_bytes(body,'big'),cnt])
        elif t in '789':
            entry=int.from_bytes(body,'big'); info['term']=t
        else: raise FmtErr('type '+ln)
    # S5 check: each S5 count equals number of data recs until next S5/terminator
    g=info['groups']
    for i,(n,start) in enumerate(g):
        end=g[i+1][1] if i+1<len(g) else cnt
        if n!=end-start: raise FmtErr('S5 count %d != %d'%(n,end-start))
    return mem,entry,info
def cnt5(c,i): return c
def dec_intel(text):
    mem={}; entry=None; base=0; seen_eof=False; info={}
    for ln in text.split('\n'):
        if not ln: continue
        if ln[0]!=':': raise FmtErr('line '+ln)
        raw=ln[1:]
        if raw in('00000001','0000000000'): seen_eof=True; info['eof']=raw; continue   # documented -i 1/2 variants
        b=hb(raw)
        if sum(b)&0xff: raise FmtErr('checksum '+ln)
        n=b[0]; a=(b[1]<<8)|b[2]; t=b[3]; d=b[4:-1]
        if n!=len(d): raise FmtErr('len '+ln)
        if t==0:
            for i,x in enumerate(d):
                ad=base+((a+i)&0xffff) if info.get('mode')!=4 else base+((a+i)&0xffff)
                if ad in mem: raise FmtErr('dup addr %x'%ad)
                mem[ad]=x
        elif t==1: seen_eof=True; info['eof']=raw; 
        elif t==2: base=int.from_bytes(d,'big')<<4; info['mode']=2
        elif t==4: base=int.from_bytes(d,'big')<<16; info['mode']=4
        elif t==3: entry=(int.from_bytes(d[:2],'big')<<4)+int.from_bytes(d[2:],'big')
        elif t==5: entry=int.from_bytes(d,'big')
        else: raise FmtErr('type '+ln)
        if t==1 and a and entry is None: entry=a
    if not seen_eof: raise FmtErr('no eof')
    return mem,entry,info
def dec_mos(text):
    mem={}; n=0; info={}
    lines=[l for l in text.split('\n') if l]
    for k,ln in enumerate(lines):
        if ln[0]!=';': raise FmtErr('line '+ln)
        b=hb(ln[1:])
        cnt=b[0]
        if cnt==0:
            recs=int.from_bytes(b[1:3],'big'); ck=int.from_bytes(b[3:5],'big')
            if recs!=n: raise FmtErr('MOS trailer count %d != %d'%(recs,n))
            if ck!=(recs>>8)+(recs&0xff) and ck!=recs: raise FmtErr('MOS trailer checksum')
            continue
        a=(b[1]<<8)|b[2]; d=b[3:3+cnt]; ck=int.from_bytes(b[3+cnt:],'big')
        if len(d)!=cnt or len(b)!=cnt+5: raise FmtErr('MOS len '+ln)
        if ck!=(sum(b[:3+cnt])&0xffff): raise FmtErr('MOS checksum line %d'%(k+1))
        for i,x in enumerate(d): mem[a+i]=x
        n+=1
    return mem,None,info
def nib(s): return sum(int(c,16) for c in s)&0xff
def dec_tek(text):
    mem={}
    for ln in text.split('\n'):
        if not ln: continue
        if ln[0]!='/': raise FmtErr('line '+ln)
        a=int(ln[1:5],16); cnt=int(ln[5:7],16); c1=int(ln[7:9],16)
        if c1!=nib(ln[1:7]): raise FmtErr('TEK header checksum')
        if cnt==0: continue
        d=ln[9:9+2*cnt]; c2=int(ln[9+2*cnt:],16)
        if c2!=nib(d): raise FmtErr('TEK data checksum')
        for i,x in enumerate(hb(d)): mem[a+i]=x
    return mem,None,{}
def dec_atmel(text,alen=3):
    mem={}
    for ln in text.split('\n'):
        if not ln: continue
        m=re.fullmatch(r'([0-9A-F]{%d}):([0-9A-F]{4})'%(2*alen),ln)
        if not m: raise FmtErr('line '+ln)
        a=int(m.group(1),16); w=int(m.group(2),16)
        mem[a]=w
    return mem,None,{}
