import os, sys, subprocess, shutil, re
from multiprocessing import Pool
ASL='/repo/_build/asl'; P2BIN='/repo/_build/p2bin'
T='/repo/tests'
mode=sys.argv[1]
def rewrite(text, mode):
    lines=text.split(b'\n')
    if mode=='crlf': return b'\r\n'.join(lines)
    if mode=='blank': return b'\n\n'.join(lines)
    if mode=='none': return text
    if mode=='comment':
        out=[]
        for l in lines:
            if b';' not in l and not l.rstrip().endswith(b'\\') and l.strip(): l=l+b' ; x'
            out.append(l)
        return b'\n'.join(out)
    if mode=='opcase':
        out=[]
        for l in lines:
            m=re.match(rb'^(\S*)(\s+)(\S+)(.*)$',l)
            if m and not m.group(1).startswith(b';') and not m.group(3).startswith(b';') and b'"' not in m.group(3) and b"'" not in m.group(3):
                op=m.group(3); op=op.upper() if op!=op.upper() else op.lower()
                l=m.group(1)+m.group(2)+op+m.group(4)
            out.append(l)
        return b'\n'.join(out)
    if mode=='ws':
        out=[]
        for l in lines:
            m=re.match(rb'^(\S*)(\s+)(\S+)(\s+)?(.*)$',l)
            if m and not m.group(1).startswith(b';') and not m.group(3).startswith(b';'):
                l=m.group(1)+b'\t\t'+m.group(3)+(b'   ' if m.group(4) else b'')+m.group(5)
            out.append(l)
        return b'\n'.join(out)
    if mode=='colon_add':
        out=[]
        for l in lines:
            m=re.match(rb'^([^\s;:*#]+)(\s.*|)$',l)
            if m and not l.startswith((b';',b'*',b'#')) and b'"' not in m.group(1) and b"'" not in m.group(1):
                l=m.group(1)+b':'+m.group(2)
            out.append(l)
        return b'\n'.join(out)
    if mode=='colon_del':
        out=[]
        for l in lines:
            m=re.match(rb'^([^\s;:]+):(\s.*|)$',l)
            if m: l=m.group(1)+(m.group(2) or b'')
            out.append(l)
        return b'\n'.join(out)
    if mode in('upall','lowall'):
        out=[]
        for l in lines:
            res=bytearray(); q=None; esc=False; comment=False
            for ch in l:
                c=bytes([ch])
                if comment: res+=c; continue
                if q:
                    res+=c
                    if esc: esc=False
                    elif c==b'\\': esc=True
                    elif c==q: q=None
                    continue
                if c in(b'"',b"'"): q=c; res+=c; continue
                if c==b';': comment=True; res+=c; continue
                res+= c.upper() if mode=='upall' else c.lower()
            out.append(bytes(res))
        return b'\n'.join(out)
    if mode=='include':
        return b'\tinclude "body.inc"\n'
    if mode=='macro':
        return b'wrapm\tmacro\n'+text+b'\n\tendm\n\twrapm\n'
def run(t):
    d=os.path.join(T,t); src=os.path.join(d,t+'.asm')
    if not os.path.exists(src): return None
    w='/dev/shm/rw_%s_%s'%(mode,t); shutil.rmtree(w,ignore_errors=True); os.makedirs(w)
    for f in os.listdir(d):
        if f.endswith('.asm') or f.endswith('.inc') :
            data=open(os.path.join(d,f),'rb').read()
            open(os.path.join(w,f),'wb').write(rewrite(data,mode) if f==t+'.asm' else data)
            if f==t+'.asm' and mode=='include': open(os.path.join(w,'body.inc'),'wb').write(data)
        elif f not in ('asflags',) and not f.endswith('.ori') and not f.endswith('.doc'):
            shutil.copy(os.path.join(d,f),w)
    flags=[]
    if os.path.exists(os.path.join(d,'asflags')):
        flags=open(os.path.join(d,'asflags')).readline().split()
    r=subprocess.run([ASL]+flags+['-q','-i','/repo/include',t+'.asm','-o',t+'.p','-shareout',t+'.h'],cwd=w,capture_output=True)
    if r.returncode!=0: res=(t,'asl rc %d'%r.returncode, r.stderr[:200])
    else:
        subprocess.run([P2BIN,'-q','-k','-l','0','-r','0x-0x',t],cwd=w,capture_output=True)
        try: ok=open(os.path.join(w,t+'.bin'),'rb').read()==open(os.path.join(d,t+'.ori'),'rb').read()
        except Exception as e: ok=False
        res=(t,'same' if ok else 'DIFF',b'')
    shutil.rmtree(w,ignore_errors=True)
    return res
if __name__=='__main__':
    with Pool(16) as p: rs=[r for r in p.map(run,sorted(os.listdir(T))) if r]
    bad=[r for r in rs if r[1]!='same']
    print(mode,len(rs),'bad',len(bad))
    for b in bad[:80]: print(b)
