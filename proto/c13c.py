import itertools, os, subprocess, sys, tempfile, shutil, collections, struct
sys.path.insert(0,'/tmp/w/s')
from pdump import parse
ASL='/repo/_build/asl'
OPS=['x\tequ 1','x\tequ 2','x\tset 1','x\tset 2','x:','x\t= 1','x\t:= 2']
def model(seq):
    kind=None; val=None   # kind: 'const'/'var'
    for op in seq:
        if op=='x:': nk,nv='const','PC'
        elif 'equ' in op or '\t= ' in op: nk,nv='const',int(op.split()[-1])
        else: nk,nv='var',int(op.split()[-1])
        if kind is None: kind,val=nk,nv
        elif kind=='const' and nk=='const': return 'ERR'
        elif kind!=nk: return 'ERR'
        else: val=nv
    return val
d=tempfile.mkdtemp(dir='/dev/shm'); res=collections.Counter(); bad=[]
for n in (1,2,3):
    for seq in itertools.product(OPS,repeat=n):
        src='\tcpu 8086\n\torg 16\n'+'\n'.join(seq)+'\n\torg 100h\n\tdw x\n'
        open(d+'/a.asm','w').write(src)
        if os.path.exists(d+'/a.p'): os.unlink(d+'/a.p')
        r=subprocess.run([ASL,'-q','a.asm'],cwd=d,capture_output=True,env={'LC_ALL':'C'})
        m=model(seq)
        if m=='ERR':
            ok=(r.returncode==2)
        else:
            if r.returncode!=0: ok=False
            else:
                recs={x[5]:x[7] for x in parse(open(d+'/a.p','rb').read()) if x[0]=='data'}
                got=struct.unpack('<H',recs[0x100])[0]; ok=(got==(16 if m=='PC' else m))
        res[ok]+=1
        if not ok and len(bad)<12: bad.append((seq,m,r.returncode,r.stderr.decode().split('\n')[0][-60:]))
print(res)
for b in bad: print(b)
shutil.rmtree(d)
