import itertools, os, subprocess, sys, tempfile, shutil, collections, re
from multiprocessing import Pool
ASL='/repo/_build/asl'
def subst(line,binding):
    # replace whole parameter names delimited by non-alphanumerics (case-insensitive), longest first irrelevant since whole-token
    def rep(m):
        t=m.group(0)
        return binding.get(t.upper(),t)
    return re.sub(r'[A-Za-z0-9]+',rep,line)
def expand(params,defaults,body,args,kw):
    b={}
    for i,p in enumerate(params):
        v=None
        if p.upper() in kw: v=kw[p.upper()]
        elif i<len(args) and args[i]!='': v=args[i]
        else: v=defaults.get(p,'')
        b[p.upper()]=v
    return [subst(l,b) for l in body]
base=tempfile.mkdtemp(dir='/dev/shm')
def asm(d,name,text):
    open(d+'/%s.asm'%name,'w').write(text)
    if os.path.exists(d+'/%s.p'%name): os.unlink(d+'/%s.p'%name)
    r=subprocess.run([ASL,'-q',name+'.asm'],cwd=d,capture_output=True,env={'LC_ALL':'C'},timeout=5)
    return r.returncode,(open(d+'/%s.p'%name,'rb').read() if os.path.exists(d+'/%s.p'%name) else None),r.stderr.decode()
def run(job):
    params,defaults,body,args,kw=job
    d=os.path.join(base,str(os.getpid())); os.makedirs(d,exist_ok=True)
    plist=','.join(p+('='+defaults[p] if p in defaults else '') for p in params)
    call=','.join(list(args)+['%s=%s'%(k,v) for k,v in kw.items()])
    src='\tcpu 8080\nAB\tequ 77\nBA\tequ 78\nm\tmacro %s\n%s\n\tendm\n\tm %s\n'%(plist,'\n'.join(body),call)
    hand='\tcpu 8080\nAB\tequ 77\nBA\tequ 78\n'+'\n'.join(expand(params,defaults,body,args,kw))+'\n'
    r1=asm(d,'a',src); r2=asm(d,'b',hand)
    if r2[0]!=0: return job,'hand-expansion-invalid'
    if r1[0]!=0: return job,'MACRO-FAILS %s'%r1[2].split('\n')[0][-50:]
    if r1[1]!=r2[1]: return job,'DIFF'
    return job,'ok'
if __name__=='__main__':
    jobs=[]
    ARG=['','1','2+1','B','b']
    bodies=[['\tdb A'],['\tdb A+B'],['\tdb AB'],['\tdb A,B,AB,BA'],['\tdb a'],['\tdb "A"'],['\tdb A_B'] ]
    for body in bodies:
        for da in (None,'5'):
            for db_ in (None,'6'):
                defaults={}
                if da: defaults['A']=da
                if db_: defaults['B']=db_
                for a in ARG:
                    for b in ARG:
                        jobs.append((('A','B'),defaults,body,(a,b),{}))
                        jobs.append((('A','B'),defaults,body,(a,),{'B':b}))
                        jobs.append((('A','B'),defaults,body,(),{'A':a,'B':b}))
    print(len(jobs),'jobs')
    with Pool(16) as p: rs=p.map(run,jobs,chunksize=20)
    c=collections.Counter(r.split(' ')[0] for _,r in rs); print(c)
    sh=collections.Counter()
    for j,r in rs:
        k=r.split(' ')[0]
        if r!='ok' and k!='hand-expansion-invalid' and sh[k]<10: sh[k]+=1; print(j,r)
    shutil.rmtree(base)
