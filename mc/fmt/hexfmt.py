"""Independent decoders of the hex formats P2HEX writes, from their public definitions.
Each decoder returns (mem {address: byte}, entry or None, info dict) and raises FmtErr on any syntax,
count or checksum violation."""
import re


class FmtErr(Exception):
    pass


def hb(s):
    if len(s) % 2 or not re.fullmatch(r'[0-9A-Fa-f]*', s):
        raise FmtErr('not hex: ' + s[:40])
    return bytes.fromhex(s)


def dec_moto(text):
    """Motorola S-records: S0 header, S1/S2/S3 data (2/3/4 address bytes), S5 count, S9/S8/S7 termination.
    count byte = number of following bytes; checksum = one's complement of the sum of count, address and data."""
    mem = {}
    entry = None
    info = {'types': [], 'groups': [], 'term': None, 'maxpayload': 0}
    cnt = 0
    for ln in text.split('\n'):
        if not ln:
            continue
        if ln[0] != 'S' or len(ln) < 4:
            raise FmtErr('line ' + ln[:40])
        t = ln[1]
        b = hb(ln[2:])
        if b[0] != len(b) - 1:
            raise FmtErr('S%s count byte %d but %d bytes follow' % (t, b[0], len(b) - 1))
        if (sum(b) & 0xff) != 0xff:
            raise FmtErr('S%s checksum' % t)
        body = b[1:-1]
        if t == '0':
            pass
        elif t in '123':
            al = int(t) + 1
            a = int.from_bytes(body[:al], 'big')
            for i, x in enumerate(body[al:]):
                if a + i in mem:
                    raise FmtErr('address %x written twice' % (a + i))
                mem[a + i] = x
            info['types'].append(t)
            info['maxpayload'] = max(info['maxpayload'], len(body) - al)
            cnt += 1
        elif t == '5':
            info['groups'].append([int.from_bytes(body, 'big'), cnt])
        elif t in '789':
            al = {'9': 2, '8': 3, '7': 4}[t]
            if len(body) != al:
                raise FmtErr('S%s address length' % t)
            entry = int.from_bytes(body, 'big')
            info['term'] = t
        else:
            raise FmtErr('record type S' + t)
    g = info['groups']
    for i, (n, start) in enumerate(g):
        end = g[i + 1][1] if i + 1 < len(g) else cnt
        if n != end - start:
            raise FmtErr('S5 announces %d data records, %d follow' % (n, end - start))
    return mem, entry, info


def dec_intel(text):
    """Intel hex: :LLAAAATT<data>CC, two's complement checksum; 00 data, 01 EOF, 02 segment base, 03 start CS:IP,
    04 linear base, 05 linear start."""
    mem = {}
    entry = None
    base = 0
    eof = False
    info = {'eof': None, 'maxpayload': 0, 'ext': []}
    for ln in text.split('\n'):
        if not ln:
            continue
        if eof:
            raise FmtErr('record after end-of-file record')
        if ln[0] != ':':
            raise FmtErr('line ' + ln[:40])
        raw = ln[1:]
        if raw in ('00000001', '0000000000'):   # the documented -i 1 / -i 2 variants of the last line
            eof = True
            info['eof'] = raw
            continue
        b = hb(raw)
        if len(b) < 5:
            raise FmtErr('short record')
        if sum(b) & 0xff:
            raise FmtErr('checksum of ' + ln[:20])
        n, a, t, d = b[0], (b[1] << 8) | b[2], b[3], b[4:-1]
        if n != len(d):
            raise FmtErr('length byte %d, %d data bytes' % (n, len(d)))
        if t == 0:
            for i, x in enumerate(d):
                ad = base + ((a + i) & 0xffff)
                if ad in mem:
                    raise FmtErr('address %x written twice' % ad)
                mem[ad] = x
            info['maxpayload'] = max(info['maxpayload'], n)
        elif t == 1:
            eof = True
            info['eof'] = raw
            if a:
                entry = a if entry is None else entry
        elif t == 2:
            if n != 2:
                raise FmtErr('type 02 length')
            base = int.from_bytes(d, 'big') << 4
            info['ext'].append(('seg', base))
        elif t == 4:
            if n != 2:
                raise FmtErr('type 04 length')
            base = int.from_bytes(d, 'big') << 16
            info['ext'].append(('lin', base))
        elif t == 3:
            entry = (int.from_bytes(d[:2], 'big') << 4) + int.from_bytes(d[2:], 'big')
        elif t == 5:
            entry = int.from_bytes(d, 'big')
        else:
            raise FmtErr('record type %02x' % t)
    if not eof:
        raise FmtErr('no end-of-file record')
    return mem, entry, info


def dec_mos(text):
    """MOS Technology: ;LLAAAA<data>CCCC with CCCC = 16-bit sum of count, address bytes and data;
    last record ;00NNNNCCCC with NNNN = number of data records, CCCC = sum of its bytes."""
    mem = {}
    n = 0
    info = {'maxpayload': 0}
    trailer = False
    for ln in [l for l in text.split('\n') if l]:
        if trailer:
            raise FmtErr('record after end record')
        if ln[0] != ';':
            raise FmtErr('line ' + ln[:40])
        b = hb(ln[1:])
        cnt = b[0]
        if cnt == 0:
            if len(b) != 5:
                raise FmtErr('end record length')
            recs = int.from_bytes(b[1:3], 'big')
            ck = int.from_bytes(b[3:5], 'big')
            if recs != n:
                raise FmtErr('end record counts %d data records, %d written' % (recs, n))
            if ck != b[1] + b[2]:
                raise FmtErr('end record checksum')
            trailer = True
            continue
        if len(b) != cnt + 5:
            raise FmtErr('record length')
        a = (b[1] << 8) | b[2]
        d = b[3:3 + cnt]
        ck = int.from_bytes(b[3 + cnt:], 'big')
        if ck != (sum(b[:3 + cnt]) & 0xffff):
            raise FmtErr('data record checksum (record %d)' % (n + 1))
        for i, x in enumerate(d):
            if a + i in mem:
                raise FmtErr('address %x written twice' % (a + i))
            mem[a + i] = x
        info['maxpayload'] = max(info['maxpayload'], cnt)
        n += 1
    if n and not trailer:
        raise FmtErr('no end record')
    return mem, None, info


def nib(s):
    return sum(int(c, 16) for c in s) & 0xff


def dec_tek(text, bytesum=False):
    """Tektronix hex: /AAAACCHH<data>SS, HH = sum of the six hex DIGITS of address and count, SS = sum of the data digits."""
    mem = {}
    info = {'maxpayload': 0}
    for ln in text.split('\n'):
        if not ln:
            continue
        if ln[0] != '/' or len(ln) < 9:
            raise FmtErr('line ' + ln[:40])
        a = int(ln[1:5], 16)
        cnt = int(ln[5:7], 16)
        c1 = int(ln[7:9], 16)
        if c1 != (nib(ln[1:7]) if not bytesum else sum(hb(ln[1:7])) & 0xff):
            raise FmtErr('header checksum (digit sum)')
        if cnt == 0:
            continue
        d = ln[9:9 + 2 * cnt]
        if len(ln) != 9 + 2 * cnt + 2:
            raise FmtErr('record length')
        c2 = int(ln[9 + 2 * cnt:], 16)
        if c2 != (nib(d) if not bytesum else sum(hb(d)) & 0xff):
            raise FmtErr('data checksum (digit sum)')
        for i, x in enumerate(hb(d)):
            if a + i in mem:
                raise FmtErr('address %x written twice' % (a + i))
            mem[a + i] = x
        info['maxpayload'] = max(info['maxpayload'], cnt)
    return mem, None, info


def dec_dsk(text):
    """TI DSK: header K_DSKA_1.00_DSK_<name>, records 9aaaa {Bdddd|Mdddd}... 7ccccF, optional entry 1aaaa7ccccF, end ':'.
    Returns ({(kind, word address): word}, entry, info); kind 'B' = program, 'M' = data memory.  The checksum field is returned
    in info['sums'] as (written, sum of the record's data words) pairs - its defining document is not available offline."""
    lines = [l for l in text.split('\n') if l]
    if not lines or not lines[0].startswith('K_DSKA_1.00_DSK_'):
        raise FmtErr('header line')
    if lines[-1] != ':':
        raise FmtErr('end line')
    mem, entry, sums = {}, None, []
    for ln in lines[1:-1]:
        m = re.fullmatch(r'1([0-9A-F]{4})7([0-9A-F]{4})F', ln)
        if m:
            entry = int(m.group(1), 16)
            continue
        m = re.fullmatch(r'9([0-9A-F]{4})((?:[BM][0-9A-F]{4})+)7([0-9A-F]{4})F', ln)
        if not m:
            raise FmtErr('line ' + ln[:40])
        a = int(m.group(1), 16)
        tot = 0
        for k, (kind, w) in enumerate(re.findall(r'([BM])([0-9A-F]{4})', m.group(2))):
            key = (kind, a + k)
            if key in mem:
                raise FmtErr('address %x written twice' % (a + k))
            mem[key] = int(w, 16)
            tot += int(w, 16)
        sums.append((int(m.group(3), 16), tot & 0xffff))
    return mem, entry, {'sums': sums}


def dec_mico8(text):
    """Lattice Mico8 prom_init: one 18-bit instruction word per line as five hex digits, no addresses (first line = address 0)"""
    mem = {}
    for k, ln in enumerate(l for l in text.split('\n') if l):
        if not re.fullmatch(r'[0-3][0-9A-Fa-f]{4}', ln):
            raise FmtErr('line ' + ln[:40])
        mem[k] = int(ln, 16)
    return mem, None, {}


def dec_atmel(text, alen=3):
    """Atmel generic: AAAAAA:DDDD - word address, 16-bit word"""
    mem = {}
    for ln in text.split('\n'):
        if not ln:
            continue
        m = re.fullmatch(r'([0-9A-Fa-f]{%d}):([0-9A-Fa-f]{4})' % (2 * alen), ln)
        if not m:
            raise FmtErr('line ' + ln[:40])
        a = int(m.group(1), 16)
        if a in mem:
            raise FmtErr('address %x written twice' % a)
        mem[a] = int(m.group(2), 16)
    return mem, None, {}


def dec_c(text):
    """C array output: #define X_start/len/end, static const unsigned char X_data[] = { ... }; optional entry define"""
    mem = {}
    entry = None
    blocks = {}
    for m in re.finditer(r'#define\s+(\w+?)_(start|len|end|entry)\s+(0x[0-9a-fA-F]+)', text):
        blocks.setdefault(m.group(1), {})[m.group(2)] = int(m.group(3), 16)
    for m in re.finditer(r'static const unsigned char (\w+?)_data\[\]\s*=\s*\{([^}]*)\}', text):
        name = m.group(1)
        vals = [int(x, 16) for x in re.findall(r'0x([0-9a-fA-F]{2})', m.group(2))]
        b = blocks.get(name)
        if not b or 'start' not in b:
            raise FmtErr('no descriptor for ' + name)
        if b.get('len') != len(vals) or b.get('end') != b['start'] + len(vals) - 1:
            raise FmtErr('descriptor of %s does not match its data' % name)
        for i, x in enumerate(vals):
            if b['start'] + i in mem:
                raise FmtErr('address written twice')
            mem[b['start'] + i] = x
    for name, b in blocks.items():
        if 'entry' in b:
            entry = b['entry']
    return mem, entry, {}


def selftest():
    m, e, i = dec_moto('S00600004844521B\nS1130000285F245F2212226A000424290008237C2A\nS9030000FC\n')
    assert m[0] == 0x28 and len(m) == 16 and e == 0
    m, e, i = dec_intel(':0B0010006164647265737320676170A7\n:00000001FF\n')
    assert bytes(m[a] for a in sorted(m)) == b'address gap'
    try:
        dec_intel(':0B0010006164647265737320676170A8\n:00000001FF\n')
        raise AssertionError
    except FmtErr:
        pass
    m, e, i = dec_mos(';0300100102030019\n;0000010001\n')
    assert m == {0x10: 1, 0x11: 2, 0x12: 3}
    m, e, i = dec_tek('/00100304010203' + '06\n')
    assert m == {0x10: 1, 0x11: 2, 0x12: 3}
    return True
