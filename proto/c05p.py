import itertools, os, subprocess, sys, tempfile, shutil, collections, struct
from multiprocessing import Pool
P2BIN='/repo/_build/p2bin'
GRAN={0x41:1,0x70:2,0x76:4}
def wfile(recs,entry=None):
    b=b'\x89\x14'
    for (cpu,seg,start,data) in recs:
        g=GRAN[cpu]
        if seg==1: b+=bytes([cpu])
        else: b+=bytes([0x81,cpu,seg,g])
        b+=struct.pack('<IH',start,len(data))+data
    if entry is not None: b+=b'\x80'+struct.pack('<I',entry)
    b+=b'\x00'+b'TEST'
    return b
LANES={'ALL':(1,0,0),'EVEN':(2,1,0),'ODD':(2,1,1),'BYTE0':(4,3,0),'BYTE1':(4,3,1),'BYTE2':(4,3,2),'BYTE3':(4,3,3),'WORD0':(2,2,0),'WORD1':(2,2,2)}
def model(recs,entry,opt):
    """opt: dict r=(lo,hi) or None(auto) with None elements for auto; l fill; m lane; S header; e entry; s checksum; f filter list; seg"""
    seg=opt.get('seg',1); flt=opt.get('f')
    sel=[(cpu,s,start,data) for (cpu,s,start,data) in recs if s==seg and (flt is None or cpu in flt)]
    lo,hi=opt.get('r',(None,None))
    if lo is None or hi is None:
        if not sel: return ('autofail',)
        if lo is None: lo=min(st for _,_,st,_ in sel)
        if hi is None: hi=max(st+len(d)//GRAN[c]-1 for c,_,st,d in sel)
        if lo>hi: return ('autofail',)
    maxg=max([GRAN[c] for c,_,_,_ in sel] or [1])
    div,mask,eq=LANES[opt.get('m','ALL')]
    fill=opt.get('l',0xff)
    # byte-address space: address a (units of record's gran) -> byte addresses a*g..a*g+g-1 ; image over [lo*maxg,(hi+1)*maxg)
    nbytes=(hi-lo+1)*maxg
    img={}
    cover=collections.Counter()
    for c,_,st,d in sel:
        g=GRAN[c]
        for i,by in enumerate(d):
            a=st+i//g
            if lo<=a<=hi:
                img[(a*g+i%g)-lo*g if g==maxg else None]=by
        for a in range(st,st+len(d)//g):
            if lo<=a<=hi: cover[a]+=1
    overlap=any(v>1 for v in cover.values())
    out=[]
    for ba in range(nbytes):
        absb=lo*maxg+ba
        if (absb&mask)==eq or div==1:
            out.append(img.get(ba,fill))
    hdr=b''
    S=opt.get('S')
    ent=opt.get('e',entry)
    if S:
        n=abs(S); v=(ent if ent is not None else 0)   # if no entry: header zero
        bs=[(v>>(8*i))&0xff for i in range(n)]
        if S<0: bs=bs[::-1]
        hdr=bytes(bs) if ent is not None else bytes(n)
    body=bytes(out)
    if opt.get('s') and body:
        body=body[:-1]+bytes([(-sum(body[:-1]))&0xff])
    return ('ok',hdr+body,overlap)
def argv(opt):
    a=[]
    if 'r' in opt:
        lo,hi=opt['r']; a+=['-r','%s-%s'%('0x' if lo is None else hex(lo),'0x' if hi is None else hex(hi))]
    if 'l' in opt: a+=['-l',str(opt['l'])]
    if 'm' in opt: a+=['-m',opt['m']]
    if 'S' in opt: a+=['-S',('B%d'%-opt['S']) if opt['S']<0 else 'L%d'%opt['S']]
    if 'e' in opt: a+=['-e',hex(opt['e'])]
    if opt.get('s'): a+=['-s']
    if 'f' in opt: a+=['-f',','.join(hex(x) for x in opt['f'])]
    if 'seg' in opt: a+=['-segment',{1:'code',2:'data'}[opt['seg']]]
    return a
base=tempfile.mkdtemp(dir='/dev/shm')
def run(case):
    recs,entry,opt=case
    d=os.path.join(base,str(os.getpid())); os.makedirs(d,exist_ok=True)
    for f in ('a.bin',):
        if os.path.exists(d+'/'+f): os.unlink(d+'/'+f)
    open(d+'/a.p','wb').write(wfile(recs,entry))
    r=subprocess.run([P2BIN,'-q','a.p','a.bin']+argv(opt),cwd=d,capture_output=True,env={'LC_ALL':'C'},timeout=5)
    m=model(recs,entry,opt)
    if r.returncode<0: return case,'SIGNAL %d'%r.returncode
    if m[0]=='autofail':
        return case,('ok' if r.returncode==1 else 'autofail-expected rc=%d'%r.returncode)
    if r.returncode!=0: return case,'rc=%d %s'%(r.returncode,r.stderr.decode()[:60].replace('\n',' '))
    got=open(d+'/a.bin','rb').read()
    if got!=m[1]: return case,'IMAGE got %s want %s'%(got.hex(),m[1].hex())
    ov=b'overlap' in r.stderr.lower()
    if ov!=m[2]: return case,'OVERLAP got %s want %s'%(ov,m[2])
    return case,'ok'
def layouts(cpus):
    one=[]
    for c in cpus:
        for s in (1,2):
            for st in (0,1,2,3,5,8):
                for n in (1,2,3,5):
                    one.append((c,s,st,n))
    for a in one:
        yield [a]
    for a in one:
        for b in one:
            if a[1]==1 or b[1]==1: yield [a,b]
def mk(recs):
    out=[]
    for k,(c,s,st,n) in enumerate(recs):
        out.append((c,s,st,bytes(((0x11*(k+1))+i)&0xff for i in range(n*GRAN[c]))))
    return out
OPTS1=[{}]+[{'r':r} for r in [(None,None),(0,15),(2,5),(None,4),(3,None)]]+[{'l':0},{'l':0xa5}]+[{'m':m} for m in LANES if m!='ALL']+[{'S':S} for S in (1,2,4,-2,-4)]+[{'e':0x1234}]+[{'s':True}]+[{'f':[0x41]},{'f':[0x70]},{'f':[0x12]}]+[{'seg':2}]
def merge(a,b):
    d=dict(a); d.update(b); return d
if __name__=='__main__':
    k=int(sys.argv[1]); cpus=[int(x,16) for x in sys.argv[2].split(',')]
    opts=list(OPTS1)
    if k>=2:
        for a,b in itertools.combinations(OPTS1[1:],2):
            if set(a)&set(b): continue
            opts.append(merge(a,b))
    def fix(o):
        if o.get('m','ALL')!='ALL':
            o=dict(o); o['r']=(0,15)
        return o
    cases=[(mk(l),e,fix(o)) for l in layouts(cpus) for e in (None,) for o in opts]
    print(len(cases),'cases')
    with Pool(16) as p: rs=p.map(run,cases,chunksize=100)
    c=collections.Counter(r.split(' got')[0][:40] for _,r in rs)
    print(c.most_common(20))
    # classify failures by option keys
    byopt=collections.Counter()
    ex={}
    for (recs,e,o),r in rs:
        if r!='ok':
            key=(tuple(sorted(o.keys())),r.split(' ')[0])
            byopt[key]+=1
            ex.setdefault(key,((recs,o),r))
    for k_,v in byopt.most_common(40):
        (recs,o),r=ex[k_]
        print(v,k_,'e.g.',[(hex(c),s,st,d.hex()) for c,s,st,d in recs],o,r[:150])
    shutil.rmtree(base)
