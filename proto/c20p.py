import itertools, os, subprocess, sys, tempfile, shutil, collections, re
from multiprocessing import Pool
ASL='/repo/_build/asl'
KINDS=['INC','MAC','REPT','IRP','WHILE']
def build(shape,pos):
    """shape: tuple of kinds outermost->innermost; returns files dict and list of expected position regexes.
    Each level body: [nop, <inner or fault>, nop] with fault at position pos(0,1,2) in innermost body of 3 lines"""
    files={}; counter=[0]; predef=[]
    def body_lines(level):
        # returns (lines, list of (line_index_in_body (1-based), inner_desc))
        if level==len(shape):
            lines=['\tnop','\tnop','\tnop']; lines[pos]='\tfoo'
            return lines,[(pos+1,None)]
        k=shape[level]; inner,ifaults=body_lines(level+1)
        counter[0]+=1; n=counter[0]
        if k=='INC':
            name='i%d.inc'%n; files[name]='\n'.join(inner)+'\n'
            lines=['\tnop','\tinclude "%s"'%name,'\tnop']
            return lines,[(2,('INC',name,ifaults))]
        if k=='MAC':
            # macro must be defined at this level before call: definition lines + call
            predef.append(['m%d\tmacro'%n]+inner+['\tendm'])
            lines=['\tnop','\tm%d'%n,'\tnop']
            return lines,[(2,('MAC','M%d'%n,ifaults))]
        if k=='REPT':
            lines=['\trept 2']+inner+['\tendm','\tnop']
            return lines,[(len(inner)+2,('REPT',None,ifaults))]
        if k=='IRP':
            lines=['\tirp q,1,2']+inner+['\tendm','\tnop']
            return lines,[(len(inner)+2,('IRP',None,ifaults))]
        if k=='WHILE':
            lines=['w%d\tset 0'%n,'\twhile w%d<2'%n]+inner+['w%d\tset w%d+1'%(n,n),'\tendm','\tnop']
            return lines,[(len(inner)+4,('WHILE',None,ifaults))]
    top,faults=body_lines(0)
    pre=[l for m in predef for l in m]
    files['main.asm']='\tcpu 6502\n'+'\n'.join(pre+top)+'\n'
    # expected position regex list
    exps=[]
    def walk(prefix_file,off,faults,chain,mult):
        for line,desc in faults:
            if desc is None:
                exps.append((chain+[('LINE',prefix_file,line+off)],mult)); continue
            k,name,sub=desc
            if k=='INC': walk(name,0,sub,[],mult)   # include restarts chain (native format shows innermost include only)
            elif k=='MAC': walk(None,0,sub,chain+[('AT',prefix_file,line+off),('M',name)],mult)
            elif k=='REPT': walk(None,0,sub,chain+[('AT',prefix_file,line+off),('R','REPT')],mult*2)
            elif k=='IRP': walk(None,0,sub,chain+[('AT',prefix_file,line+off),('R','IRP')],mult*2)
            elif k=='WHILE': walk(None,0,sub,chain+[('AT',prefix_file,line+off),('R','WHILE')],mult*2)
    walk('main.asm',1+len(pre),faults,[],1)
    return files,exps
def render_exp(chain):
    # build regex
    out=''; 
    i=0
    parts=[]
    for el in chain:
        if el[0]=='AT':
            if el[1] is not None: parts.append(re.escape('%s(%d)'%(el[1],el[2])))
            else: parts.append(r'\(%d\)'%el[2])   # body line of enclosing construct appended to previous element
        elif el[0]=='M': parts.append(re.escape(el[1]))
        elif el[0]=='R': parts.append(el[1]+r'[^()]*')
        elif el[0]=='LINE':
            if el[1] is not None: parts.append(re.escape('%s(%d)'%(el[1],el[2])))
            else: parts.append(r'\(%d\)'%el[2])
    # join: elements of form NAME followed by (n) are adjacent without space; others separated by space
    s=''
    for p in parts:
        if p.startswith(r'\('): s+=p
        else: s+=(' ' if s else '')+p
    return s
base=tempfile.mkdtemp(dir='/dev/shm')
def run(job):
    shape,pos=job
    files,exps=build(shape,pos)
    d=tempfile.mkdtemp(dir=base)
    for n,t in files.items(): open(d+'/'+n,'w').write(t)
    r=subprocess.run([ASL,'-q','main.asm'],cwd=d,capture_output=True,env={'LC_ALL':'C'},timeout=5)
    shutil.rmtree(d)
    msgs=[l for l in r.stderr.decode().split('\n') if 'error' in l]
    want=[]
    for chain,mult in exps: want+=[render_exp(chain)]*mult
    got=[re.sub(r'^> > > ','',m).split(': error')[0] for m in msgs]
    got=[re.sub(r':\d+$','',g) for g in got]
    def norm(g):
        toks=re.findall(r'([A-Za-z0-9_.]+)(?:[ :][^()/ ]*)?[(/](\d+)\)?',g)
        return tuple((a.upper() if not a.lower().endswith(('.asm','.inc')) else a,int(b)) for a,b in toks)
    def normw(chain):
        out=[]; cur=None
        for el in chain:
            if el[0] in('AT','LINE'):
                if el[1] is not None: out.append((el[1],el[2]))
                else: out.append((cur,el[2]))
            else: cur=el[1].upper()
        return tuple(out)
    wantn=[]
    for chain,mult in exps: wantn+=[normw(chain)]*mult
    gotn=[norm(g) for g in got]
    if sorted(gotn)!=sorted(wantn): return job,'POS got %r want %r'%(gotn[:3],wantn[:2])
    return job,'ok'
if __name__=='__main__':
    D=int(sys.argv[1])
    jobs=[(s,p) for k in range(0,D+1) for s in itertools.product(KINDS,repeat=k) for p in (0,1,2)]
    print(len(jobs),'jobs')
    with Pool(16) as p: rs=p.map(run,jobs,chunksize=5)
    c=collections.Counter(r.split(' ')[0] for _,r in rs); print(c)
    sh=0
    for j,r in rs:
        if r!='ok' and sh<14: sh+=1; print(j,r[:230])
    shutil.rmtree(base)
