"""C04 - the code file contains exactly the program's bytes at the program's addresses.

Histories of emission / reservation / ORG / segment / CPU / END statements with run lengths straddling the
512-byte write buffer and the 64 KiB record limit are assembled; the code file is parsed by the independent
reader (well-formedness) and the union of its data records is compared, per segment, with the byte map the
reference model derives from the source (nothing lost, duplicated, reordered or shifted).
"""
import itertools
from .. import core
from ..fmt import pfile

ID = 'C04'
LEVEL = 'model_checking'
VARIANTS = ['plain']
CHUNK = 8
ENGINE = 'history-explorer'
TECHNIQUE = 'exhaustive emission histories around the 512-byte buffer and 64 KiB record boundaries, code file read back by an independent parser against a byte-map model'
LEVEL_TEXT = ('Every triple of emission sizes around the 512-byte buffer limit with every pair of separators (nothing, reservation, ORG gap, '
              'segment excursion, CPU switch) and both emission styles (many short statements / one long statement), every prefix length around '
              '65535/65536/131072 bytes followed by every small emission, and every op sequence up to length 3 (quick) / 4 (thorough) over the '
              'full alphabet are assembled on byte-, word- and 4-byte-granular targets (and on the default CPU without a CPU statement); the '
              'independent reader must accept the file and its records must equal the model\'s per-segment byte map and CPU/segment/granularity tags.'
              ' Two further targets: the AVR re-selected with another code-segment-size CPU argument (header id and granularity change without a CPU change), and the 68000 under PADDING ON with word data and word reservations at odd addresses (the pad byte is part of the program).'
              ' PADDING state is followed across CPU switches to 6809/6805 (targets that know PADDING but default to off).'
              " Added in the last round: reservation with a multi-element DUP body; a byte laid down in the data segment (its record's granularity).")
LEVEL_NOTE = ('Trusted: pfile reader written from doc/file-formats.md; model of what a data statement emits (unit values < 251, little-endian '
              'units on word-granular targets); CPU switch continues the code counter. Output sizes up to ~200 KiB.')
RULE = ('(a) EMIT triples x separator pairs x style x target; (b) prefix lengths around record limits x tail emissions; (c) all op sequences '
        'up to the depth. Non-trivial = at least two emissions or a separator.')
BOUNDS = {'quick': '(a) sizes {1,511,512,513}; (b) 68000; (c) length<=3', 'thorough': '(a) 12 sizes; (b) 68000+C30; (c) length<=4'}
ASSUMPTIONS = ['units of word-granular targets are stored little-endian in the code file', 'a CPU statement continues the code segment counter and selects CODE']

# cpu name -> (family id, code granularity, emit mnemonic, reserve mnemonic, extra line after CPU statement)
CPUS = {
    '68000': (0x01, 1, 'dc.b', 'ds.b', '\tpadding off'),
    '8051': (0x31, 1, 'db', 'ds', None),
    'z80': (0x51, 1, 'db', 'ds', None),
    'at90s8515': (0x3b, 2, 'data', None, None),
    '320c30': (0x76, 4, 'word', 'bss', None),
    # the same device with its code segment addressed in words / in bytes (CPU argument): header id and granularity differ
    'atmega8': (0x3b, 2, 'data', None, None),
    'atmega8:codesegsize=0': (0x3d, 1, 'data', None, None, 2),
    # 68000 with PADDING ON: a word at an odd address is preceded by an emitted pad byte 00, a reserved word by a reserved byte
    '68000p': (0x01, 1, 'dc.b', 'ds.b', '\tpadding on'),
    # 16-bit ADR words of the 65xx (little endian) and 68xx (big endian) families in one program
    '6502': (0x11, 1, 'byt', 'dfs', None),
    '6800': (0x61, 1, 'byt', 'rmb', None),
    # targets that know PADDING but default to OFF: what a 68000 section switched on must not survive the CPU switch
    '6809': (0x63, 1, 'fcb', 'rmb', None),
    '6805': (0x62, 1, 'fcb', 'rmb', None),
}
STMT = {'68000p': '68000'}
# target -> (initial cpu or None for default, partner cpu for CPU switches, has data segment)
TARGETS = {
    '68000': ('68000', 'z80', False),
    '8051': ('8051', 'z80', True),
    'avr': ('at90s8515', None, True),
    'c30': ('320c30', None, False),
    'default': (None, 'z80', False),
    'avrargs': ('atmega8', 'atmega8:codesegsize=0', True),
    '68000pad': ('68000p', 'z80', False),
    'adr65': ('6502', '6800', False),
    'adr68': ('6800', '6502', False),
    '68000pad09': ('68000p', '6809', False),
    '68000pad05': ('68000p', '6805', False),
}
B_FULL = [1, 2, 3, 255, 256, 257, 510, 511, 512, 513, 514, 1024]
B_Q = [1, 511, 512, 513]
SEPS = ['none', 'res1', 'org', 'seg', 'cpu']


class Model(object):
    def __init__(self, target):
        cpu, self.partner, self.hasdata = TARGETS[target]
        self.lines = []
        self.cpu = cpu or '68000'   # the default CPU is a 68008: same family id and syntax
        if cpu:
            self.lines.append('\tcpu ' + STMT.get(cpu, cpu))
        if CPUS[self.cpu][4]:
            self.lines.append(CPUS[self.cpu][4])
        self.pc = 0
        self.mem = {}      # (seg, byteaddr) -> (byte, cpuid)
        self.ctr = 0
        self.entry = None
        self.ended = False
        self.ops = 0

    def gran(self):
        return CPUS[self.cpu][1]

    def nextval(self):
        self.ctr = (self.ctr * 7 + 13) % 251
        return self.ctr

    def put(self, vals):
        g = self.gran()
        fam = CPUS[self.cpu][0]
        bpv = CPUS[self.cpu][5] if len(CPUS[self.cpu]) > 5 else g       # bytes per value
        for v in vals:
            for b in range(bpv):
                self.mem[(1, g, self.pc * g + b)] = (v if b == 0 else 0, fam)
            self.pc += bpv // g

    def words(self, n, pad=True):
        """68000 dc.w / ds.w under PADDING ON; 68xx dc.w / ds.w under their default PADDING OFF"""
        fam = CPUS[self.cpu][0]
        if not pad and not n:
            self.lines.append('\tds.w 1')
            self.pc += 2
            return
        if n:
            vals = [self.nextval() for _ in range(n)]
            self.lines.append('\tdc.w ' + ','.join(str(v) for v in vals))
            if pad and self.pc & 1:
                self.mem[(1, 1, self.pc)] = (0, fam)
                self.pc += 1
            for v in vals:
                self.mem[(1, 1, self.pc)] = (0, fam)
                self.mem[(1, 1, self.pc + 1)] = (v, fam)
                self.pc += 2
        else:
            self.lines.append('\tds.w 1')
            self.pc += (self.pc & 1) + 2

    def emit(self, n, style):
        mn = CPUS[self.cpu][2]
        if style == 'lines':
            vals = [self.nextval() for _ in range(n)]
            for i in range(0, n, 16):
                self.lines.append('\t%s %s' % (mn, ','.join(str(v) for v in vals[i:i + 16])))
            self.put(vals)
        else:  # one statement emitting all n units
            pat = [self.nextval() for _ in range(min(n, 4))]
            reps, rest = divmod(n, len(pat))
            vals = []
            if mn == 'db':
                parts = ['%d dup (%s)' % (reps, ','.join(str(v) for v in pat))] + [str(v) for v in pat[:rest]]
                vals = pat * reps + pat[:rest]
            elif mn == 'dc.b':
                # 68k repetition syntax [n]value applies to one value; use a string constant for variety
                parts = ['[%d]%d' % (n - len(pat), pat[0])] + [str(v) for v in pat]
                vals = [pat[0]] * (n - len(pat)) + pat
            else:
                parts = None
            if parts is None:
                return self.emit(n, 'lines')
            self.lines.append('\t%s %s' % (mn, ','.join(p for p in parts if not p.startswith('0 dup') and not p.startswith('[0]'))))
            self.put(vals)

    def adr(self, n):
        """ADR: 16-bit words in the byte order of the CURRENT family"""
        fam = CPUS[self.cpu][0]
        vals = [0x1200 + self.nextval() for _ in range(n)]
        self.lines.append('\tadr ' + ','.join(str(v) for v in vals))
        for v in vals:
            bs = v.to_bytes(2, 'little' if self.cpu == '6502' else 'big')
            for b in bs:
                self.mem[(1, 1, self.pc)] = (b, fam)
                self.pc += 1

    def sep(self, s):
        if s == 'res1':
            r = CPUS[self.cpu][3]
            if r is None:
                self.lines.append('\torg %d' % (self.pc + 1))
            else:
                self.lines.append('\t%s 1' % r)
            self.pc += 1
        elif s == 'org':
            self.pc += 16
            self.lines.append('\torg %d' % self.pc)
        elif s == 'resdup':
            # a reservation whose DUP body has several elements: 3 x (?, ?) = 6 units
            if CPUS[self.cpu][2] == 'db':
                self.lines.append('\tdb 3 dup (?, ?)')
                self.pc += 6
            else:
                self.lines.append('\torg %d' % (self.pc + 6))
                self.pc += 6
        elif s == 'seg':
            if self.hasdata and self.cpu != 'z80':
                # one byte laid down in the (byte-granular) data segment: its record carries that segment's granularity
                self.nseg = getattr(self, 'nseg', 0) + 1
                a = 40 + self.nseg
                v = self.nextval()
                self.lines += ['\tsegment data', '\torg %d' % a, '\t%s %d' % ('db' if self.cpu != '16c84' else 'data', v), '\tsegment code']
                self.mem[(2, 1, a)] = (v, CPUS[self.cpu][0])
            else:
                self.lines += ['\tsegment code']
        elif s == 'cpu':
            if self.partner:
                self.cpu = self.partner if self.cpu != self.partner else (self.home)
                self.lines.append('\tcpu ' + STMT.get(self.cpu, self.cpu))
                if CPUS[self.cpu][4]:
                    self.lines.append(CPUS[self.cpu][4])
            else:
                self.lines.append('\tcpu ' + self.cpu)   # re-selecting the same CPU still closes the record
        elif s in ('end', 'endbare'):
            if s == 'end':
                self.entry = self.pc
                self.lines.append('\tend %d' % self.pc)
            else:
                self.lines.append('\tend')
            self.ended = True
            # whatever follows END is not part of the program
            mn = CPUS[self.cpu][2]
            self.lines += ['\t%s 77,78' % mn, '\torg %d' % (self.pc + 40), '\t%s 79' % mn]


def build(case):
    t = case['t']
    m = Model(t)
    m.home = TARGETS[t][0] or '68000'
    if case['k'] == 'a':
        if case.get('org'):
            m.pc = case['org']
            m.lines.append('\torg %d' % m.pc)
        for i, n in enumerate(case['ns']):
            m.emit(n, case['style'] if i == 1 else 'lines')
            if i < len(case['seps']):
                m.sep(case['seps'][i])
    elif case['k'] == 'b':
        p = case['prefix']
        m.pc = 0x100
        m.lines.append('\torg %d' % m.pc)
        while p > 0:
            n = min(p, 1000)
            m.emit(n, 'one')
            p -= n
        m.emit(case['tail'], 'lines')
        m.sep(case['fin'])
        if case['fin'] != 'none':
            m.emit(2, 'lines')
    else:
        for op in case['ops']:
            if m.ended:
                break
            if op[0] == 'E':
                m.emit(int(op[1:]), 'lines')
            elif op[0] == 'B':
                m.emit(int(op[1:]), 'one')
            elif op[0] == 'W':
                if m.cpu == '68000p':
                    m.words(int(op[1:]))
                elif m.cpu in ('6809', '6805'):
                    m.words(int(op[1:]), pad=False)
                elif m.cpu in ('6502', '6800'):
                    m.adr(max(1, int(op[1:])))
                else:
                    m.emit(1, 'lines')
            else:
                m.sep(op)
    return m


def subspaces(tier):
    subs = []
    q = tier == 'quick'
    B = B_Q if q else B_FULL

    def fam_a():
        for t in TARGETS:
            seps = [s for s in SEPS if not (s == 'seg' and False)]
            for ns in itertools.product(B, repeat=3):
                for sp in itertools.product(seps, repeat=2):
                    for style in ('lines', 'one'):
                        if style == 'one' and t in ('avr', 'c30', 'avrargs'):
                            continue
                        if t in ('68000pad', 'adr65', 'adr68', '68000pad09', '68000pad05'):
                            continue        # only differ through the word ops of family (c)
                        if t == 'avrargs' and 256 + 2 * sum(ns) > 4000:
                            continue        # (the ATmega8 has 4K words of program memory: beyond that "address overflow" is the documented answer)
                        if not q and len(B) > 4 and style == 'one' and sp != ('none', 'none') and ns[1] not in B_Q:
                            continue
                        yield {'k': 'a', 't': t, 'ns': list(ns), 'seps': list(sp), 'style': style, 'org': 0 if t == 'default' else 0x100}
    subs.append(('a:buffer-boundary', fam_a()))

    def fam_b():
        ts = ['68000'] if q else ['68000', 'c30']
        for t in ts:
            g = 4 if t == 'c30' else 1
            lim = 65536 // g
            ps = sorted(set([lim - k for k in range(0, 5)] + [lim + k for k in range(1, 4)] + ([2 * lim - 2, 2 * lim - 1, 2 * lim, 2 * lim + 1] if not q else [])))
            for p in ps:
                for tail in (1, 2, 3, 4, 512, 1000):
                    for fin in ('none', 'res1', 'org'):
                        yield {'k': 'b', 't': t, 'prefix': p, 'tail': tail, 'fin': fin}
    subs.append(('b:record-limit', fam_b()))
    ops = ['E1', 'E511', 'E512', 'E513', 'B511', 'B512', 'B513', 'res1', 'resdup', 'org', 'seg', 'cpu', 'end', 'endbare']
    n = 3 if q else 4

    def fam_c():
        for t in TARGETS:
            for k in range(1, n + 1):
                for s in itertools.product(ops, repeat=k):
                    if t in ('avr', 'c30', 'avrargs') and any(o[0] == 'B' for o in s):
                        continue
                    if t in ('68000pad', 'adr65', 'adr68', '68000pad09', '68000pad05'):
                        continue
                    yield {'k': 'c', 't': t, 'ops': list(s)}
        pops = ['E1', 'E2', 'E511', 'E512', 'W1', 'W3', 'W0', 'res1', 'org', 'cpu', 'end']
        for k in range(1, n + 2):
            for s in itertools.product(pops, repeat=k):
                if any(o[0] == 'W' for o in s):
                    yield {'k': 'c', 't': '68000pad', 'ops': list(s)}
        for t in ('68000pad09', '68000pad05'):
            for k in range(2, n + 2):
                for s in itertools.product(['E1', 'E2', 'W1', 'W3', 'W0', 'res1', 'cpu'], repeat=k):
                    if any(o[0] == 'W' for o in s) and 'cpu' in s:
                        yield {'k': 'c', 't': t, 'ops': list(s)}
        aops = ['E1', 'W1', 'W2', 'cpu', 'org', 'res1']
        for t in ('adr65', 'adr68'):
            for k in range(1, n + 2):
                for s in itertools.product(aops, repeat=k):
                    if any(o[0] == 'W' for o in s) and 'cpu' in s:
                        yield {'k': 'c', 't': t, 'ops': list(s)}
    subs.append(('c:op-sequences<=%d' % n, fam_c()))
    return subs


def describe(case):
    if case['k'] == 'a':
        return '%s: EMIT %d /%s/ EMIT %d (%s) /%s/ EMIT %d' % (case['t'], case['ns'][0], case['seps'][0], case['ns'][1], case['style'], case['seps'][1], case['ns'][2])
    if case['k'] == 'b':
        return '%s: %d units prefix, EMIT %d, %s' % (case['t'], case['prefix'], case['tail'], case['fin'])
    return '%s: %s' % (case['t'], ' '.join(case['ops']))


def evaluate(case):
    m = build(case)
    core.fresh()
    core.put('a.asm', '\n'.join(m.lines) + '\n')
    o = core.run('asl', ['-q', 'a.asm'], timeout=30)
    d = describe(case)
    ck = core.crashkind(o)
    if ck:
        return core.R(False, ck, 'crash/' + ck, '%s on %s' % (ck, d))
    p = core.get('a.p')
    if o.rc != 0 or p is None:
        return core.R(False, 'rejected', 'rejected/' + case['k'], 'rc=%s %s on %s' % (o.rc, (o.out + o.err)[-200:].decode('latin-1'), d))
    try:
        recs = pfile.read(p)
    except pfile.FormatError as e:
        return core.R(False, 'malformed', 'malformed/' + str(e).split(' ')[0], 'code file not well formed: %s on %s' % (e, d))
    got = {}
    entries = [r for r in recs if r.kind == 'entry']
    if recs[-1].kind != 'creator':
        return core.R(False, 'malformed', 'malformed/creator', 'creator record not last on ' + d)
    for r in pfile.data_records(recs):
        if r.seg == 1:
            want_g = None
            for c in CPUS.values():
                if c[0] == r.cpu:
                    want_g = c[1]
            if want_g is None or r.gran != want_g:
                return core.R(False, 'header', 'header/granularity', 'record %r has granularity %s, documented %s on %s' % (r, r.gran, want_g, d))
        for i, b in enumerate(r.data):
            k = (r.seg, r.gran, r.start * r.gran + i)
            if k in got:
                return core.R(False, 'duplicate', 'bytes/duplicate', 'address %x of segment %d is in the code file twice on %s' % (k[2], k[0], d))
            got[k] = (b, r.cpu)
    if got != m.mem:
        diff = [a for a in sorted(set(got) | set(m.mem)) if got.get(a) != m.mem.get(a)]
        kind = 'lost' if len(got) < len(m.mem) else 'extra' if len(got) > len(m.mem) else 'shifted-or-reordered'
        return core.R(False, 'bytes', 'bytes/' + kind, '%d addresses differ, first (segment, granularity, byte address) %s: file %s model %s on %s' % (len(diff), [hex(x) for x in diff[0]], got.get(diff[0]), m.mem.get(diff[0]), d))
    if m.entry is None:
        if entries:
            return core.R(False, 'entry', 'entry/spurious', 'entry record without END argument on ' + d)
    elif len(entries) != 1 or entries[0].entry != m.entry:
        return core.R(False, 'entry', 'entry/value', 'entry records %s, model %s on %s' % ([e.entry for e in entries], m.entry, d))
    nrec = len(pfile.data_records(recs))
    return core.R(True, 'match', states=['%d:%d' % (len(m.mem) % 512, nrec)], nontrivial=len(m.lines) > 3)
