import itertools, os, subprocess, sys, tempfile, shutil, collections, struct, re
sys.path.insert(0,'/tmp/w/s')
from hexfmt import *
P2HEX='/repo/_build/p2hex'
def wfile(cpu,gran,start,data):
    return b'\x89\x14'+bytes([cpu])+struct.pack('<IH',start,len(data))+data+b'\x00TEST'
d=tempfile.mkdtemp(dir='/dev/shm'); bad=[]; n=0
def run(args,cpu,gran,start,data):
    open(d+'/a.p','wb').write(wfile(cpu,gran,start,data))
    if os.path.exists(d+'/a.hex'): os.unlink(d+'/a.hex')
    r=subprocess.run([P2HEX,'-q','a.p','a.hex']+args,cwd=d,capture_output=True,env={'LC_ALL':'C'},timeout=5)
    return r.returncode,(open(d+'/a.hex').read() if os.path.exists(d+'/a.hex') else None),r.stderr.decode()
# PIC (gran 2) Intel with -m 0..3
for start in (0,1,0x7fff,0x8000):
  for nw in (1,2,8,9):
    data=bytes((i*5+1)&0xff for i in range(2*nw))
    for m in (None,0,1,2,3):
        n+=1
        rc,txt,err=run((['-m',str(m)] if m is not None else []),0x70,2,start,data)
        if rc!=0: bad.append(('pic',start,nw,m,'rc%d'%rc)); continue
        try: mem,entry,info=dec_intel(txt)
        except FmtErr as e: bad.append(('pic',start,nw,m,'FMT '+str(e))); continue
        mm=m or 0
        want={}
        for w in range(nw):
            lo,hi=data[2*w],data[2*w+1]; a=start+w
            if mm==0: want[2*a]=lo; want[2*a+1]=hi            # INHX8M: byte addresses doubled, lo-hi
            elif mm==1: want[2*a]=hi; want[2*a+1]=lo          # INHX16M: natural (big-endian?) order -- "bytes stored in their natural order"
            elif mm==2: want[a]=lo
            elif mm==3: want[a]=hi
        want={k&0xffff if True else k:v for k,v in want.items()}
        if mem!=want:
            badk=[k for k in sorted(set(mem)|set(want)) if mem.get(k)!=want.get(k)][:3]
            bad.append(('pic',hex(start),nw,m,'MEM %s'%[(hex(k),mem.get(k),want.get(k)) for k in badk]))
# AVR (0x3b gran 2) default format Atmel, avrlen 2/3
for start in (0,1,0xffff,0x10000):
  for nw in (1,2,3):
    data=bytes((i*5+1)&0xff for i in range(2*nw))
    for al in (None,2,3):
        n+=1
        rc,txt,err=run((['-avrlen',str(al)] if al else []),0x3b,2,start,data)
        if rc!=0: bad.append(('avr',start,nw,al,'rc%d'%rc)); continue
        try: mem,_,_=dec_atmel(txt,al or 3)
        except FmtErr as e: bad.append(('avr',start,nw,al,'FMT '+str(e))); continue
        want={(start+w)&((1<<(8*(al or 3)))-1):data[2*w]|(data[2*w+1]<<8) for w in range(nw)}
        if mem!=want: bad.append(('avr',hex(start),nw,al,'MEM got %s want %s'%(mem,want)))
print(n,'runs',len(bad),'bad')
c=collections.Counter((b[0],b[3],b[4][:12]) for b in bad); print(c.most_common())
for b in bad[:14]: print(b)
shutil.rmtree(d)
