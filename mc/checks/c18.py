"""C18 - files assembled in one invocation do not influence each other.

History = sequence of source files given to one asl run.  Oracle for every file of the sequence = its solo run
with the same options (code file bytes, diagnostics naming that file, exit contribution).  Enumerated: ALL ordered
pairs of golden sources (every code generator as predecessor and successor), every generated failing predecessor
(stopping mid-construct or leaving a mode switched) before every source, and triples.
"""
import hashlib, itertools, os, re
from .. import core, corpus

ID = 'C18'
LEVEL = 'model_checking'
VARIANTS = ['plain']
CHUNK = 8
ENGINE = 'history-explorer'
TECHNIQUE = 'exhaustive file-sequence histories (all ordered pairs, failing predecessors, triples) against solo runs of the real assembler'
LEVEL_TEXT = ('Every ordered pair of the flag-compatible golden sources (all ~36 000 pairs: every code generator precedes every other), every one of '
              '30 generated predecessors that fail mid-construct or leave a mode switched before every source, and (thorough) triples are assembled '
              'in one invocation; each successor\'s code file, per-file diagnostics and the exit status are compared with the solo run.'
              ' Every golden source also serves as failing predecessor of its own target (its first half plus an unknown instruction, leaving whatever that code generator keeps pending) in front of itself and of the smallest program of the same CPU.'
              ' Predecessors that queue export records are included.'
              ' Added in the last round: nameless temporary labels, export entries behind the last code, ASSUME state of 78K4/SX20/OLMS-50/MN1613.'
              ' A probe of every corpus CPU that reports where each segment starts follows targets with other segment starts (thorough: every other probe).')
LEVEL_NOTE = 'Trusted: the solo run of the same rebuilt binary as differential oracle; options are per invocation, so only sources with equal asflags are paired.'
RULE = 'ordered file sequences; non-trivial = predecessor and successor differ'
BOUNDS = {'quick': 'all ordered pairs + failing predecessors x all sources', 'thorough': '+ triples (failing, s1, s2) and (s1, s2, s3) on ring distance<=2'}
ASSUMPTIONS = ['a solo run is the specification of a file\'s result']

F = {
    'f_macro': '\tcpu 6502\nm\tmacro x\n\tnop\n',
    'f_if': '\tcpu 6502\n\tif 1\n\tnop\n',
    'f_if0': '\tcpu 6502\n\tif 0\n\tnop\n',
    'f_switch': '\tcpu 6502\n\tswitch 1\n\tcase 2\n\tnop\n',
    'f_section': '\tcpu 6502\n\tsection foo\n\tnop\n',
    'f_struct': '\tcpu 6502\nrec\tstruct\nf1\trmb 1\n',
    'f_save': '\tcpu 6502\n\tsave\n\tnop\n',
    'f_rept': '\tcpu 6502\n\trept 3\n\tnop\n',
    'f_irp': '\tcpu 6502\n\tirp x,1,2\n\tnop\n',
    'f_while': '\tcpu 6502\n\twhile 0\n\tnop\n',
    'f_phase': '\tcpu 6502\n\tphase $8000\n\tnop\n\tfoo\n',
    'f_charset': "\tcpu 6502\n\tcharset 'a','z','A'\n\tfoo\n",
    'f_relaxed': '\tcpu 6502\n\trelaxed on\n\tfoo\n',
    'f_intsyntax': '\tcpu 6502\n\tintsyntax +0x,-$hex\n\tfoo\n',
    'f_padding': '\tcpu 68000\n\tpadding off\n\tsupmode on\n\tfpu on\n\tfoo\n',
    'f_assume': '\tcpu 6809\n\tassume dpr:$12\n\tfoo\n',
    'f_radix': '\tcpu 6502\n\tradix 16\n\toutradix 8\n\tfoo\n',
    'f_expect': '\tcpu 6502\n\texpect 10\n\tnop\n',
    'f_listing': '\tcpu 6502\n\tlisting off\n\tmacexp_dft noif\n\tfoo\n',
    'f_dotted': '\tcpu 6502\n\tdottedstructs on\n\tfoo\n',
    'f_dotted_ok': '\tcpu 6502\n\tdottedstructs on\n\tnop\n',
    'f_function': '\tcpu 6502\nsq\tfunction x,x*x\n\tfoo\n',
    'f_enum': '\tcpu 6502\n\tenumconf 4,code\n\tenum a,b\n\tfoo\n',
    'f_org': '\tcpu 8051\n\tsegment data\n\torg 40h\n\tfoo\n',
    'f_nestmax': '\tcpu 6502\n\tnestmax 2\n\tfoo\n',
    'f_bigendian': '\tcpu mcore\n\tbigendian on\n\tfoo\n',
    'f_compmode': '\tcpu 6502\n\tcompmode on\n\tfoo\n',
    'f_pushv': '\tcpu 6502\nx\tset 1\n\tpushv ,x\n\tfoo\n',
    # symbols queued for the export record of the code file, behind the last code and in front of it
    'f_export': '\tcpu 6502\nx\tequ 5\n\tnop\n\texport_sym x\n\tfoo\n',
    'f_export_first': '\tcpu 6502\nx\tequ 5\n\texport_sym x\n\tjmp later\n\tfoo\nlater:\n',
    'f_ok_export': '\tcpu 6502\nx\tequ 5\n\tnop\n\tjmp later\nlater:\tnop\n\texport_sym x\n',
    # nameless temporary labels: the log of `-`/`/` labels belongs to one file
    'f_ok_tmplab': '\tcpu 6502\n-\tnop\n/\tnop\n-\tnop\n\tbne -\n\tbne --\n',
    'f_tmplab': '\tcpu 6502\n-\tnop\n/\tnop\n\tbne -\n\tfoo\n',
    'g_tmpuse': '\tcpu 6502\n\torg $10\n\tnop\n\tbne -\n+\tnop\n\tbne +\n+\tnop\n',
    # export entries queued while the current record is empty (nothing follows that would write them out)
    'f_ok_exportonly': '\tcpu 6502\nfoo\tequ 5\n\texport_sym foo\n',
    'f_ok_export_emptyrec': '\tcpu 6502\nfoo\tequ 5\n\tnop\n\torg $2000\n\texport_sym foo\n',
    # ASSUMEd register contents of four more targets: they are the program's, not the next file's
    'f_ok_78k4': '\tcpu 784026\n\tassume rss:1\n\tnop\n', 'g_78k4use': '\tcpu 784026\n\tmov a,#1\n\tmov x,#2\n\tmov c,b\n',
    'f_ok_sx20': '\tcpu sx20\n\tassume fsr:$30\n\tnop\n', 'g_sx20use': '\tcpu sx20\n\tmov w,$13\n\tmov w,$33\n',
    'f_ok_olms': '\tcpu msm5054\n\tassume p:1\n\tnop\n', 'g_olmsuse': '\tcpu msm5054\n\tadd acc,03h\n',
    'f_ok_mn': "\tcpu mn1613alt\n\tassume csbr:1\n\tnop\n", 'g_mnuse': "\tcpu mn1613alt\n\tbd X'1000'\n",
    'f_fatal': None,   # placeholder: fatal ends the run, nothing follows
    'f_defsym': '\tcpu 6502\nsym\tequ 5\nm1\tmacro\n\tnop\n\tendm\n\tfoo\n',
    'f_sh_literal': '\tcpu sh7600\n\torg 0\n\tmov.l #$cafebabe,r1\n\trts\n\tnop\n',       # fails: literal pool never flushed by LTORG
    # error-free: the last machine instruction changes a register the C16x pipeline still watches in the next instruction
    'f_ok_166pipe': '\tcpu 80c167\ndpp0\tequ 0fe00h\n\tnop\n\tmov dpp0,#0\n',
    'f_ok_166sp': '\tcpu 80c167\nsp\tequ 0fe12h\ncp\tequ 0fe10h\n\tnop\n\tmov cp,#0fc00h\n',
    'g_166use': '\tcpu 80c167\n\tmov r0,1234h\n\tnop\n',
    # no CPU statement: assembled for the CPU (and CPU arguments) given with -cpu
    'g_nocpu': '\tnop\n\tnop\n',
    'f_ok_defsym': '\tcpu 6502\nstart\tequ 5\nloop\tequ 6\nm1\tmacro\n\tnop\n\tendm\n\tnop\n',
}
del F['f_fatal']


_PROBES = None


def probes():
    """one probe source per CPU named by the golden corpus: a label at the start of every segment the assembler knows, their values
    reported in a warning (a diagnostic naming the file, so it is part of the per-file comparison); segments the target does not
    have are rejected the same way in the solo run"""
    global _PROBES
    if _PROBES is None:
        _PROBES = {}
        for t in corpus.tests():
            c = tiny_of(t)
            if not c:
                continue
            name = 'g_segprobe_' + re.sub(r'\W', '_', c.split()[1].lower())
            if name in _PROBES:
                continue
            segs = ('data', 'xdata', 'idata', 'bdata', 'io', 'reg', 'rom', 'eedata')
            src = c + ''.join('\tsegment %s\np%s:\n' % (sg, sg) for sg in segs) + '\tsegment code\n' + \
                '\twarning "%s"\n' % ' '.join('%s=\\{p%s}' % (sg, sg) for sg in segs)
            _PROBES[name] = src
        F.update(_PROBES)
    return _PROBES


def half_of(t):
    """a failing predecessor made from a golden source: its first half (whatever state that leaves pending in the target's code
    generator - open constructs, literal pools, ASSUMEs, modes) followed by an unknown instruction"""
    lines = open(os.path.join(corpus.tdir(), t, t + '.asm'), 'rb').read().decode('latin-1').split('\n')
    return '\n'.join(lines[:max(3, len(lines) // 2)]) + '\n\tfoo\n'


def tiny_of(t):
    """the smallest program of the same target: only the first CPU statement of the golden source (an empty code file)"""
    for l in open(os.path.join(corpus.tdir(), t, t + '.asm'), 'rb').read().decode('latin-1').split('\n'):
        m = re.match(r'^\s+cpu\s+(\S+)', l, re.I)
        if m:
            return '\tcpu %s\n' % m.group(1)
    return None


def groups():
    g = {}
    for t in corpus.tests():
        g.setdefault(tuple(corpus.flags(t)), []).append(t)
    return g


def subspaces(tier):
    g = groups()
    subs = []
    q = tier == 'quick'

    def pairs():
        for fl, ts in sorted(g.items()):
            for a in ts:
                for b in ts:
                    if a != b:
                        yield {'k': 'seq', 'files': [a, b], 'flags': list(fl)}
    subs.append(('pairs:all-ordered', pairs()))

    def fpairs():
        for fl, ts in sorted(g.items()):
            for f in sorted(F):
                for b in ts:
                    yield {'k': 'seq', 'files': [f, b], 'flags': list(fl)}
    subs.append(('pairs:failing-predecessor', fpairs()))

    def selfpairs():
        for fl, ts in sorted(g.items()):
            for t in ts:
                yield {'k': 'seq', 'files': ['half:' + t, t], 'flags': list(fl)}
                if tiny_of(t):
                    yield {'k': 'seq', 'files': ['half:' + t, 'tiny:' + t], 'flags': list(fl)}
                    yield {'k': 'seq', 'files': ['f_sh_literal', 'f_ok_defsym', 'tiny:' + t], 'flags': list(fl)}
    subs.append(('pairs:truncated-self-as-predecessor', selfpairs()))

    def cpuopt():
        # CPU and CPU arguments from the command line hold for every file and pass
        for fl in (['-cpu', 'z8002:amdsyntax=1'], ['-cpu', 'atmega8:codesegsize=0'], ['-cpu', 'z80'], ['-cpu', '8051']):
            for pred in ('g_nocpu', 'f_ok_defsym', 'f_macro', 'f_radix'):
                yield {'k': 'seq', 'files': [pred, 'g_nocpu'], 'flags': fl}
                yield {'k': 'seq', 'files': [pred, 'g_nocpu', 'g_nocpu'], 'flags': fl}
        for pred, succ in (('f_ok_78k4', 'g_78k4use'), ('f_ok_sx20', 'g_sx20use'), ('f_ok_olms', 'g_olmsuse'), ('f_ok_mn', 'g_mnuse')):
            yield {'k': 'seq', 'files': [pred, succ], 'flags': []}
            yield {'k': 'seq', 'files': [pred, 'f_ok_defsym', succ], 'flags': []}
        for pred in ('f_ok_tmplab', 'f_tmplab', 'g_tmpuse'):
            yield {'k': 'seq', 'files': [pred, 'g_tmpuse'], 'flags': []}
            yield {'k': 'seq', 'files': [pred, 'f_ok_defsym', 'g_tmpuse'], 'flags': []}
        for succ in ('g_166use',):
            for pred in ('f_ok_166pipe', 'f_ok_166sp', 'g_166use'):
                yield {'k': 'seq', 'files': [pred, succ], 'flags': []}
                yield {'k': 'seq', 'files': [pred, 'f_ok_defsym', succ], 'flags': []}
    subs.append(('cpu-option-and-pipeline-state', cpuopt()))

    def segstarts():
        # where each segment of a target starts is that target's fact, not what the file before left behind: a probe of every
        # corpus CPU behind a probe of a target with other segment starts (thorough: behind every other probe)
        P = sorted(probes())
        first = [x for x in P if re.search(r'_(8051|atmega8|320c541|xag3|1802|z8601|68000|16c54|sx20|msm5840|z80|6502)$', x)] if q else P
        for a in first:
            for b in P:
                if a != b:
                    yield {'k': 'seq', 'files': [a, b], 'flags': []}
    subs.append(('segment-starts: probe of every corpus CPU behind %s' % ('10 targets with other segment starts' if q else 'every other probe'), segstarts()))
    OPTS18 = [['-u'], ['-C'], ['-A'], ['-L'], ['-g', 'MAP'], ['-s', '-L'], ['-x', '-x'], ['-P'], ['-M'], ['-r'], ['-u', '-Werror'], ['-I', '-L'], ['-t', '255', '-L']]

    def optpairs():
        ts = g.get((), [])
        n = len(ts)
        for o in OPTS18:
            for i in range(n):
                for dlt in ((1, 2, 7) if tier == 'quick' else (1, 2, 3, 7, 50)):
                    yield {'k': 'seq', 'files': [ts[(i - dlt) % n], ts[i]], 'flags': o}
            for f in ('f_if0', 'f_macro', 'f_section', 'f_ok_defsym'):
                for i in range(n):
                    yield {'k': 'seq', 'files': [f, ts[i]], 'flags': o}
    subs.append(('pairs:under-report-options', optpairs()))
    if tier != 'quick':
        def triples():
            ts = g.get((), [])
            n = len(ts)
            for f in sorted(F):
                for i in range(n):
                    for dlt in (1, 2):
                        yield {'k': 'seq', 'files': [f, ts[i], ts[(i + dlt) % n]], 'flags': []}
            for i in range(n):
                for d1 in (1, 2, 3):
                    for d2 in (1, 2, 3):
                        a, b, c = ts[i], ts[(i + d1) % n], ts[(i + d1 + d2) % n]
                        if len({a, b, c}) == 3:
                            yield {'k': 'seq', 'files': [a, b, c], 'flags': []}
        subs.append(('triples', triples()))
    return subs


def describe(case):
    return 'asl %s %s' % (' '.join(case['flags']), ' '.join(case['files']))


_solo = {}


def putfile(t):
    if t.startswith('g_segprobe_'):
        probes()
    # every source lives in its own directory: several tests ship include files of the same name
    d = os.path.join(core.workdir(), t)
    os.makedirs(d, exist_ok=True)
    if t in F:
        core.put(t + '/' + t + '.asm', F[t])
    elif t.startswith('half:') or t.startswith('tiny:'):
        base = t[5:]
        corpus.prep(base, d)            # include files of the golden source
        core.put(t + '/' + t + '.asm', half_of(base) if t.startswith('half:') else tiny_of(base))
    else:
        corpus.prep(t, d)


def diag_for(txt, name):
    # per-file slice of the error channel: lines naming the file (native '> > > name.asm(' prefix)
    # (messages name the file without its directory)
    return [l for l in txt.split('\n') if l.startswith('> > > %s/%s.asm(' % (name, name)) or l.startswith('> > > %s.asm(' % name)]


def solo(t, flags):
    key = (t, tuple(flags))
    if key not in _solo:
        core.fresh()
        putfile(t)
        o = core.run('asl', flags + ['-q', '-i', corpus.incdir(), t + '/' + t + '.asm'], timeout=120)
        p = core.get(t + '/' + t + '.p')
        txt = (o.out + o.err).decode('latin-1')
        _solo[key] = (o.rc, hashlib.sha1(p).hexdigest() if p is not None else None, diag_for(txt, t), core.crashkind(o), [l for l in txt.split('\n') if l.startswith('> > > INTERNAL')])
    return _solo[key]


def evaluate(case):
    files, flags = case['files'], case['flags']
    n0 = len(_solo)
    solos = [solo(t, flags) for t in files]
    ntr = 1 + len(_solo) - n0
    core.fresh()
    for t in files:
        putfile(t)
    o = core.run('asl', flags + ['-q', '-i', corpus.incdir()] + [t + '/' + t + '.asm' for t in files], timeout=240)
    d = describe(case)
    ck = core.crashkind(o)
    if ck and not any(s[3] for s in solos):
        return core.R(False, ck, 'crash/%s/after-%s' % (ck, files[-2]), '%s on %s' % (ck, d), transitions=ntr)
    txt = (o.out + o.err).decode('latin-1')
    wantrc = 3 if any(s[0] == 3 for s in solos) else 2 if any(s[0] == 2 for s in solos) else 0
    for i, t in enumerate(files):
        p = core.get(t + '/' + t + '.p')
        h = hashlib.sha1(p).hexdigest() if p is not None else None
        if h != solos[i][1]:
            return core.R(False, 'codefile', 'codefile/after-%s' % files[i - 1] if i else 'codefile/first', '%s.p differs from its solo run (%s vs %s) in %s; %s' % (t, h and h[:8], solos[i][1] and solos[i][1][:8], d, diag_for(txt, t)[:2]), transitions=ntr)
        dg = diag_for(txt, t)
        if dg != solos[i][2]:
            return core.R(False, 'diagnostics', 'diagnostics/after-%s' % files[i - 1] if i else 'diagnostics/first', 'diagnostics for %s differ from solo run in %s: %s vs %s' % (t, d, dg[:2], solos[i][2][:2]), transitions=ntr)
    # diagnostics without a source position (INTERNAL: option and CPU-argument parsing per file and pass, end-of-file checks)
    internal = sorted(l for l in txt.split('\n') if l.startswith('> > > INTERNAL'))
    want_int = sorted(l for s_ in solos for l in s_[4])
    if internal != want_int:
        return core.R(False, 'diagnostics', 'diagnostics/without-position', 'messages without position %s, the solo runs give %s in %s' % (internal[:2], want_int[:2], d), transitions=ntr)
    if o.rc != wantrc:
        return core.R(False, 'rc', 'rc/%s' % files[0], 'exit status %s, solo runs imply %s in %s' % (o.rc, wantrc, d), transitions=ntr)
    return core.R(True, 'same-as-solo', states=['>'.join(files[:-1]) if len(files) > 2 else files[0]], transitions=ntr)
