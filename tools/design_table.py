#!/usr/bin/env python3
"""Rewrites the numeric columns of the table in DESIGN.md section 0.3 from the summary lines of check logs:
   tools/design_table.py <dir-with-quick-logs q_Cxx.log> <dir-with-thorough-logs thor_Cxx.log-pattern>"""
import re, sys, glob, os
ROOT = os.path.dirname(os.path.dirname(os.path.abspath(__file__)))


def summary(path):
    try:
        t = open(path).read()
    except OSError:
        return None
    m = re.search(r'tier=\w+ evaluations=(\d+) transitions=(\d+) .*?wall=([0-9.]+)s', t)
    if not m:
        return None
    ev, tr, w = int(m.group(1)), int(m.group(2)), float(m.group(3))

    def k(n):
        return '%.2f M' % (n / 1e6) if n >= 1e6 else '%.1f k' % (n / 1e3)
    return '%s cases, %s runs, %d s' % (k(ev), k(tr), round(w))


qpat, tpat = sys.argv[1], sys.argv[2]
p = os.path.join(ROOT, 'DESIGN.md')
lines = open(p).read().split('\n')
inside = False
for i, l in enumerate(lines):
    if l.startswith('### 0.3'):
        inside = True
    elif l.startswith('### 0.4'):
        inside = False
    m = re.match(r'^\| (C\d\d) \|', l)
    if not m or not inside:
        continue
    cells = l.split(' | ')
    if len(cells) < 5:
        continue
    q = summary(qpat.replace('XX', m.group(1)))
    t = summary(tpat.replace('XX', m.group(1)))
    if q:
        cells[-2] = q
    if t:
        cells[-1] = t + ' |'
    lines[i] = ' | '.join(cells)
open(p, 'w').write('\n'.join(lines))
print('table updated')
