import os, subprocess, sys, tempfile, shutil, collections, hashlib, itertools
from multiprocessing import Pool
ASL='/repo/_build/asl'; T='/repo/tests'
tests=sorted(t for t in os.listdir(T) if os.path.exists(os.path.join(T,t,t+'.asm')))
def flags(t):
    p=os.path.join(T,t,'asflags')
    return open(p).readline().split() if os.path.exists(p) else []
base=tempfile.mkdtemp(dir='/dev/shm')
def prep(d,t):
    for f in os.listdir(os.path.join(T,t)):
        if not f.endswith('.ori') and f!='asflags' and not f.endswith('.doc'):
            shutil.copy(os.path.join(T,t,f),d)
def solo(t):
    d=tempfile.mkdtemp(dir=base); prep(d,t)
    r=subprocess.run([ASL]+flags(t)+['-q','-i','/repo/include',t+'.asm'],cwd=d,capture_output=True,env={'LC_ALL':'C'})
    h=hashlib.sha1(open(d+'/'+t+'.p','rb').read()).hexdigest() if os.path.exists(d+'/'+t+'.p') else None
    shutil.rmtree(d); return t,(r.returncode,h,r.stderr)
def pair(ab):
    a,b=ab
    d=tempfile.mkdtemp(dir=base); prep(d,a); prep(d,b)
    r=subprocess.run([ASL]+flags(b)+['-q','-i','/repo/include',a+'.asm',b+'.asm'],cwd=d,capture_output=True,env={'LC_ALL':'C'})
    h=hashlib.sha1(open(d+'/'+b+'.p','rb').read()).hexdigest() if os.path.exists(d+'/'+b+'.p') else None
    shutil.rmtree(d); return ab,(r.returncode,h,r.stderr[-300:])
if __name__=='__main__':
    noflag=[t for t in tests if not flags(t)]
    print(len(noflag),'sources without asflags')
    with Pool(16) as p:
        S=dict(p.map(solo,noflag))
        step=int(sys.argv[1])
        pairs=[(a,b) for i,a in enumerate(noflag) for j,b in enumerate(noflag) if a!=b and ((j-i)%len(noflag))<=step]
        print(len(pairs),'pairs')
        rs=p.map(pair,pairs,chunksize=10)
    bad=[(ab,r) for ab,r in rs if r[1]!=S[ab[1]][1]]
    print(len(bad),'pairs where successor .p differs from solo')
    c=collections.Counter(ab[1] for ab,_ in bad); print('by successor',c.most_common(10))
    c=collections.Counter(ab[0] for ab,_ in bad); print('by predecessor',c.most_common(10))
    for ab,r in bad[:6]: print(ab,r[0],r[2][-200:])
    shutil.rmtree(base)
