"""C17 - code output is deterministic and independent of reporting options.

Deviation-bounded configuration exploration: every golden source (plus generated multi-pass / macro / section
programs) x every configuration within k deviations of the default over the report options, the option carrier
(argv / ASCMD / @keyfile), the working directory, the output path and the message language.  Oracle: the code
file is byte-identical to the default configuration's; listing / MAP / share outputs of a repeated run are
identical after masking the time stamp.
"""
import hashlib, itertools, os, re
from .. import core, corpus

ID = 'C17'
LEVEL = 'model_checking'
VARIANTS = ['plain']
CHUNK = 4
ENGINE = 'deviation-enumerator'
TECHNIQUE = 'exhaustive enumeration of report-option/environment configurations within k deviations of the default, differential against the default run'
LEVEL_TEXT = ('For every golden source and 8 generated programs, every configuration with at most 1 (quick) / 2 (thorough) deviations from the '
              'default over 34 report options plus carrier (argv, ASCMD, key file), working directory, -o path and LANG/LC_ALL is run on the rebuilt '
              'assembler; the code file must be byte-identical to the default run and the exit status equal; repeated runs must reproduce listing, '
              'MAP and share files byte for byte apart from the date/time stamp.'
              ' One generated program executes 250 sequential INCLUDEs per pass.'
              ' Include directories added and removed again (+i), the list form of -i and a key file line longer than 255 characters are deviations of their own. The source named with ./, without its suffix and through a directory with a dot in its name are deviations too: the code file is expected next to the source under the source\'s name.')
LEVEL_NOTE = ('Trusted: the default-configuration run of the same binary as reference. -h/-SPLITBYTE only for sources without "\\{". '
              'Known finding listed in known_findings.txt for -SPLITBYTE with user FUNCTIONs if present.')
RULE = 'configurations = subsets of size <=k of the deviation list; non-trivial = at least one deviation'
BOUNDS = {'quick': 'k<=1 on all sources', 'thorough': 'k<=2 on all sources'}
ASSUMPTIONS = ['the default configuration is -q -i <include> plus the test\'s asflags']

REPORT = [['-L'], ['-l'], ['-OLIST', 'out.lst'], ['-u', '-L'], ['-C', '-L'], ['-s', '-L'], ['-I', '-L'], ['-g', 'MAP'], ['-g', 'NOICE'], ['-g', 'ATMEL'],
          ['-t', '1', '-L'], ['-t', '2', '-L'], ['-t', '4', '-L'], ['-t', '8', '-L'], ['-t', '16', '-L'], ['-t', '32', '-L'], ['-t', '64', '-L'], ['-t', '128', '-L'],
          ['-x'], ['-x', '-x'], ['-n'], ['-A'], ['-r'], ['-E', 'err.log'], ['-gnuerrors'],
          ['-LISTRADIX', '2', '-L'], ['-LISTRADIX', '8', '-L'], ['-LISTRADIX', '10', '-L'], ['-LISTRADIX', '36', '-L'], ['-P'], ['-M'], ['-h', '-L'], ['-SPLITBYTE', '.', '-L'],
          ['-u'], ['-C'], ['-s'], ['-I'], ['-t', '255']]
ENVDEV = ['srcpath:dot-slash', 'srcpath:dot-slash-nosuffix', 'srcpath:dotted-dir', 'carrier:ASCMD', 'carrier:keyfile', 'carrier:keyfile-nonl', 'carrier:keyfile-oneline', 'carrier:keyfile-longline', 'cwd:other', 'opath', 'lang:de_DE', 'lang:en_US', 'LANG:de_DE.UTF-8', 'noq',
          'ipath:add-remove', 'ipath:list-form', 'opath+olist-cleared']    # an include directory added and taken away again; the directories given as one list
NO_Q_OK = True

GEN = {
    'g_multipass': '\tcpu 68000\nstart:\tbra fwd\n\tdc.w fwd-start\n\tds.b 200\nfwd:\tmove.w fwd2,d0\n\tnop\nfwd2:\tdc.w 1\n',
    'g_macro': '\tcpu z80\nm\tmacro a,b\n\tld a,a\n\tdb b\nlab:\tjr lab\n\tendm\n\tm 1,2\n\tm 3,4\n\trept 3\n\tnop\n\tendm\n',
    'g_section': '\tcpu 8086\nsym\tequ 1\n\tsection a\nsym\tequ 2\n\tdw sym\n\tsection b\n\tpublic exp\nexp\tequ 9\n\tdw sym\n\tendsection\n\tendsection\n\tdw exp,sym\n',
    'g_ifused': '\tcpu 8080\nlab\tequ 5\n\tifused lab\n\tdb 1\n\telse\n\tdb 2\n\tendif\n\tdb lab\n\tifused lab\n\tdb 3\n\tendif\n',
    'g_func': '\tcpu 6502\nsq\tfunction x,x*x\n\tdb sq(3),sq(4)\nmsg\tset "a\\{sq(2)}"\n\tbyt "x"\n',
    'g_phase': '\tcpu z80\n\torg 100h\n\tphase 8000h\nl1:\tjp l1\n\tdephase\nl2:\tjp l2\n\tsegment io\n\torg 10h\np:\tdb ?\n',
    'g_struct': '\tcpu 8086\nrec\tstruct\na\tdb ?\nb\tdw ?\nrec\tendstruct\ninst\trec\n\tdw rec_len,inst_b\n',
    'g_warn': '\tcpu 8080\n\twarning "w"\n\tdb 1\n\tmessage "m"\n',
    'g_define': '\tcpu 8080\n\tifdef MODE\n\tdb MODE\n\telse\n\tdb 0\n\tendif\n',
    # more INCLUDE statements (250 per pass, two passes) than the nesting limit allows levels: sequential includes are not nested
    'g_manyinc': '\tcpu 8080\n\tjmp fwd\n' + '\tinclude "g_manyinc.inc"\n' * 250 + 'fwd:\tnop\n',
    # a #define that follows a use of its token, in a program that needs a second pass
    'g_defpass': '\tcpu 6502\n\torg $1000\nstart:\tnop\n\tjmp later\n#define nop brk\n\tnop\nlater:\trts\n',
    # a macro library found only through -i, then a macro call carrying a label the macro does not consume
    'g_pmac': '\tcpu 6502\n\torg $8000\n\tinclude "macros.inc"\nreset:\tinitsp $ff\n\tifexist "nosuchfile.inc"\n\tnop\n\tendif\nagain:\tinitsp $fe\n\trts\n',
}
GENFILES = {'g_manyinc': {'g_manyinc.inc': '\tnop\n'}, 'g_pmac': {'lib/macros.inc': 'initsp\tmacro {EXPORT},val\n\tldx #val\n\ttxs\n\tendm\n'}}       # (exported: written to the -M file when that is asked for)


def sources():
    return corpus.tests() + sorted(GEN)


def has_brace(t):
    if t in GEN:
        return '\\{' in GEN[t]
    try:
        return b'\\{' in open(os.path.join(corpus.tdir(), t, t + '.asm'), 'rb').read()
    except OSError:
        return False


def devs():
    return [('opt', i) for i in range(len(REPORT))] + [('env', e) for e in ENVDEV]


def subspaces(tier):
    k = 1 if tier == 'quick' else 2
    D = devs()

    def gen(r):
        for t in sources():
            for c in itertools.combinations(range(len(D)), r):
                ds = [D[i] for i in c]
                # two env deviations of the same dimension are one deviation
                dims = [d[1].split(':')[0] for d in ds if d[0] == 'env']
                if len(set(dims)) < len(dims):
                    continue
                yield {'k': 'cfg', 't': t, 'devs': [list(d) for d in ds]}
    subs = [('default+repeat', [{'k': 'rep', 't': t} for t in sources()])]
    for r in range(1, k + 1):
        subs.append(('deviations=%d' % r, gen(r)))
    return subs


def describe(case):
    if case['k'] == 'rep':
        return '%s: two identical runs with -L -g MAP -shareout' % case['t']
    return '%s: %s' % (case['t'], ' + '.join(' '.join(REPORT[d[1]]) if d[0] == 'opt' else d[1] for d in case['devs']))


def setup(t, sub='src'):
    d = os.path.join(core.workdir(), sub)
    os.makedirs(d, exist_ok=True)
    if t in GEN:
        core.put(sub + '/' + t + '.asm', GEN[t])
        for n, c in GENFILES.get(t, {}).items():
            core.put(sub + '/' + n, c)
    else:
        corpus.prep(t, d)
    return d


def flags_of(t):
    if t == 'g_pmac':
        return ['-i', os.path.join(core.workdir(), 'src', 'lib')]
    return corpus.flags(t) if t not in GEN else (['-D', 'MODE=2'] if t == 'g_define' else [])


def runcfg(t, devl):
    """returns (rc, sha of .p, crashkind)"""
    core.fresh()
    d = setup(t)
    opts = []
    env = {}
    carrier = 'argv'
    cwd = d
    src = t + '.asm'
    out = t + '.p'
    quiet = ['-q']
    for kind, v in devl:
        if kind == 'opt':
            opts += REPORT[v]
        elif v.startswith('carrier:'):
            carrier = v.split(':')[1]
        elif v == 'cwd:other':
            cwd = core.workdir()
            src = 'src/' + t + '.asm'
            out = 'src/' + t + '.p'
        elif v == 'srcpath:dot-slash':
            src = './' + t + '.asm'                          # the code file goes next to the source, under the source's name
        elif v == 'srcpath:dot-slash-nosuffix':
            src = './' + t                                    # .asm is the default suffix
        elif v == 'srcpath:dotted-dir':
            cwd = core.workdir()
            if not os.path.exists(os.path.join(cwd, 'src.d')):
                os.symlink('src', os.path.join(cwd, 'src.d'))
            src = 'src.d/' + t + '.asm'
            out = 'src.d/' + t + '.p'
        elif v == 'opath+olist-cleared':
            out = 'elsewhere.p'       # -o together with a listing name that is set and taken back again
        elif v == 'opath':
            out = 'elsewhere.p'
        elif v.startswith('lang:'):
            env['LC_ALL'] = v.split(':')[1]
        elif v.startswith('LANG:'):
            env['LC_ALL'] = ''
            env['LANG'] = v.split(':')[1]
        elif v == 'noq':
            quiet = []
    allopts = flags_of(t) + quiet + ['-i', corpus.incdir()]
    if ('env', 'ipath:add-remove') in [tuple(x) for x in devl]:
        allopts += ['-i', '/nonexistent/verif-junk', '+i', '/nonexistent/verif-junk']
    if ('env', 'ipath:list-form') in [tuple(x) for x in devl]:
        allopts = flags_of(t) + quiet + ['-i', corpus.incdir() + ':/nonexistent/verif-junk']
    if ('env', 'opath') in [tuple(x) for x in devl]:
        allopts += ['-o', out]
    if ('env', 'opath+olist-cleared') in [tuple(x) for x in devl]:
        allopts += ['-o', out, '-OLIST', 'all.lst', '+OLIST', '-q']
    allopts += opts
    # the carrier transports EVERY option (code-affecting ones included): the place an option is given must not matter
    if carrier == 'argv':
        args = allopts
    elif carrier == 'ASCMD':
        env['ASCMD'] = ' '.join(allopts)
        args = []
    else:
        lines = []
        i = 0
        while i < len(allopts):
            if i + 1 < len(allopts) and not allopts[i + 1].startswith('-'):
                lines.append(allopts[i] + ' ' + allopts[i + 1])
                i += 2
            else:
                lines.append(allopts[i])
                i += 1
        if carrier == 'keyfile-oneline':
            text = ' '.join(lines) + '\n'
        elif carrier == 'keyfile-longline':
            # the options behind 300 characters of harmless definitions on the same line
            text = '-D ' + ','.join('VERIFJUNK%d=1' % i for i in range(24)) + ' ' + ' '.join(lines) + '\n'
        elif carrier == 'keyfile-nonl':
            text = '\n'.join(lines)
        else:
            text = '\n'.join(lines) + '\n'
        core.put(('src/' if cwd == d else '') + 'keys.txt', text)
        args = ['@keys.txt']
    o = core.run('asl', args + [src], cwd=cwd, env=env, timeout=120)
    p = None
    try:
        p = open(os.path.join(cwd, out), 'rb').read()
    except OSError:
        pass
    return o.rc, hashlib.sha1(p).hexdigest() if p is not None else None, core.crashkind(o), o


_default = {}


def default_of(t):
    if t not in _default:
        r = runcfg(t, [])
        _default[t] = r[:3]
    return _default[t]


STAMP = re.compile(rb'\d\d?[./]\d\d?[./]\d{2,4}|\d\d?:\d\d:\d\d|\d+[.,]\d\d seconds? assembly time|\d+\.\d+s? ')


def evaluate(case):
    t = case['t']
    if case['k'] == 'rep':
        outs = []
        for i in range(2):
            core.fresh()
            d = setup(t)
            o = core.run('asl', flags_of(t) + ['-q', '-i', corpus.incdir(), '-L', '-g', 'MAP', '-shareout', t + '.h', '-u', '-C', '-s', t + '.asm'], cwd=d, timeout=120)
            ck = core.crashkind(o)
            if ck:
                return core.R(False, ck, 'crash/%s' % ck, '%s on %s' % (ck, describe(case)), transitions=2)
            files = {}
            for ext in ('.p', '.lst', '.map', '.h'):
                b = core.get('src/' + t + ext)
                if b is not None and ext != '.p':
                    b = b'\n'.join(l for l in STAMP.sub(b'#', b).split(b'\n') if b'assembly time' not in l and b'Assemblierzeit' not in l)
                files[ext] = hashlib.sha1(b).hexdigest() if b is not None else None
            outs.append((o.rc, files))
        if outs[0] != outs[1]:
            diff = [e for e in outs[0][1] if outs[0][1][e] != outs[1][1][e]]
            return core.R(False, 'nondeterministic', 'repeat/%s' % '+'.join(diff), 'two identical runs differ in %s on %s' % (diff, describe(case)), transitions=2)
        return core.R(True, 'repeatable', states=[t], transitions=2)
    devl = [tuple(d) for d in case['devs']]
    # -h / -SPLITBYTE are exempt for sources that stringify numbers with \{...}
    if has_brace(t) and any(d[0] == 'opt' and REPORT[d[1]][0] in ('-h', '-SPLITBYTE') for d in devl):
        return core.R(True, 'exempt', nontrivial=False, transitions=0)
    n0 = len(_default)
    ref = default_of(t)
    rc, h, ck, o = runcfg(t, devl)
    ntr = 1 + len(_default) - n0
    d = describe(case)
    if ck and not ref[2]:
        return core.R(False, ck, 'crash/%s/%s' % (ck, sigdev(devl)), '%s on %s' % (ck, d), transitions=ntr)
    if h != ref[1]:
        sg = 'codefile/%s' % sigdev(devl)
        if any(d[0] == 'opt' and REPORT[d[1]][0] == '-SPLITBYTE' for d in devl):
            sg = 'codefile/-SPLITBYTE/' + t   # call-site signature: split character reaches FUNCTION argument text
        return core.R(False, 'codefile-differs', sg, 'code file %s vs default %s (rc %s vs %s) on %s: %s' % (h and h[:8], ref[1] and ref[1][:8], rc, ref[0], d, (o.out + o.err)[-200:].decode('latin-1')), transitions=ntr)
    if rc != ref[0]:
        return core.R(False, 'rc-differs', 'rc/%s' % sigdev(devl), 'exit status %s vs default %s on %s' % (rc, ref[0], d), transitions=ntr)
    return core.R(True, 'identical', states=[t + '|' + sigdev(devl)], transitions=ntr)


def sigdev(devl):
    return '+'.join((REPORT[d[1]][0] + (REPORT[d[1]][1] if REPORT[d[1]][0] in ('-g', '-t', '-LISTRADIX') else '')) if d[0] == 'opt' else d[1] for d in devl)
