"""C13 - symbol scoping, mutability and naming rules.

Reference resolver written from the manual (Local Symbols, PUBLIC/GLOBAL/FORWARD, Temporary Symbols, SET/EQU,
PUSHV/POPV).  Spaces: all section trees up to a size bound x definition subsets x before/after x every
reference form from every node; export statements in every position; all sequences of temporary-symbol
definitions/references; all SET/EQU/label sequences; all PUSHV/POPV sequences over two named stacks and the
default stack; case variants with and without -U.
"""
import itertools, struct
from .. import core
from ..fmt import pfile

ID = 'C13'
LEVEL = 'model_checking'
VARIANTS = ['plain']
CHUNK = 16
ENGINE = 'history-explorer'
TECHNIQUE = 'exhaustive section trees / statement sequences executed on the real assembler against a resolver model'
LEVEL_TEXT = ('All rooted ordered section trees with up to 3 (quick) / 4 (thorough) sections, every subset of nodes defining the symbol, before or '
              'after the references, with every reference form (plain, [], [section], [PARENTn]) evaluated from every node; every PUBLIC/GLOBAL/FORWARD '
              'placement with every target on those trees including mixed argument lists; every sequence up to 4 / 5 of temporary-symbol '
              'definitions and references; every sequence up to 3 / 4 of EQU/SET/label/=/:= definitions; every PUSHV/POPV sequence up to 4 / 5 over '
              'two named stacks and the default stack; case variants with and without -U. Each resolved value is read from the code file.'
              ' Symbols defined with -D are looked up with -U given before and after them.'
              ' Added in the last round: scope-opening definitions written as EQU/SET/=; body-local labels against section symbols of the same name at depths 0..3.'
              ' Three named stacks (every push/pop sequence) and four (every order of filling and emptying) are alive at once.')
LEVEL_NOTE = ('Trusted: resolver model written from the manual. Out of domain (crash oracle only): backward nameless reference without a '
              'definition, dotted temporaries before any ordinary label, stacks left non-empty at the end of a pass.')
RULE = 'see LEVEL_TEXT; non-trivial = program contains at least one reference whose value was compared or one expected error'
BOUNDS = {'quick': 'trees<=3 sections, temp seq<=4, mutability<=3, pushv<=4', 'thorough': 'trees<=4, temp seq<=5, mutability<=4, pushv<=5'}
ASSUMPTIONS = ['8086 target, dw places the 16-bit value of the reference']


def asm(src, opts=()):
    core.fresh()
    core.put('a.asm', src)
    o = core.run('asl', ['-q'] + list(opts) + ['a.asm'])
    return o, core.get('a.p')


def words(p):
    """{start address: data bytes} of all data records"""
    return {r.start: r.data for r in pfile.data_records(pfile.read(p))}


# ---- (a) section trees ---------------------------------------------------------------------------

def trees(n):
    res = []

    def rec(par):
        i = len(par)
        if i == n + 1:
            res.append(list(par))
            return
        prev = i - 1
        x = prev
        cand = []
        while True:
            cand.append(x)
            if x == 0:
                break
            x = par[x]
        for c in cand:
            rec(par + [c])
    rec([None])
    return res


def children(par, i):
    return [j for j in range(1, len(par)) if par[j] == i]


def path(par, i):
    p = []
    while i is not None:
        p.append(i)
        i = par[i]
    return p


def forms(par):
    return ['sym', 'sym[]'] + ['sym[S%d]' % j for j in range(1, len(par))] + ['sym[PARENT%d]' % k for k in range(0, 5)] + ['sym[PARENT]']


def resolve(par, owner, node, form):
    """owner: dict node -> value of a 'sym' visible as belonging to that node. Returns value or None (undefined/illegal)."""
    p = path(par, node)
    if form == 'sym':
        for a in p:
            if a in owner:
                return owner[a]
        return None
    if form == 'sym[]':
        return owner.get(0)
    if form.startswith('sym[PARENT'):
        k = form[10:-1]
        k = 1 if k == '' else int(k)
        if k >= len(p):
            return None
        return owner.get(p[k])
    j = int(form[5:-1])
    if j not in p:
        return None
    return owner.get(j)


def tree_program(par, defs, defpos, only_illegal=None):
    lines = ['\tcpu 8086']
    refs = []
    illegal = []
    rid = [0]
    owner = {n: 0x10 + n for n in defs}

    def emit_refs(node):
        for f in forms(par):
            exp = resolve(par, owner, node, f)
            if exp is None:
                illegal.append((node, f))
                if only_illegal == (node, f):
                    lines.append('\tdw %s' % f)
                continue
            if only_illegal is None:
                lines.append('\torg %d' % (0x100 + rid[0] * 4))
                lines.append('\tdw %s' % f)
                refs.append((rid[0], node, f, exp))
                rid[0] += 1

    def walk(node):
        if node in defs and defpos[node] == 'before':
            lines.append('sym\tequ %d' % (0x10 + node))
        emit_refs(node)
        for c in children(par, node):
            lines.append('\tsection S%d' % c)
            walk(c)
            lines.append('\tendsection S%d' % c)
        if node in defs and defpos[node] == 'after':
            lines.append('sym\tequ %d' % (0x10 + node))
    walk(0)
    return '\n'.join(lines) + '\n', refs, illegal


def tree_cases(n, illegal_n):
    for k in range(0, n + 1):
        for par in trees(k):
            nodes = list(range(k + 1))
            for r in range(0, len(nodes) + 1):
                for defs in itertools.combinations(nodes, r):
                    for pos in itertools.product(('before', 'after'), repeat=len(defs)):
                        yield {'k': 'tree', 'par': par, 'defs': list(defs), 'pos': list(pos)}
                    if k <= illegal_n and (len(defs) in (0, 1, len(nodes))):
                        _, _, ill = tree_program(par, set(defs), {d: 'before' for d in defs})
                        for node, f in ill:
                            yield {'k': 'treeill', 'par': par, 'defs': list(defs), 'node': node, 'form': f}


def ev_tree(case):
    par = case['par']
    defs = set(case['defs'])
    if case['k'] == 'treeill':
        src, _, _ = tree_program(par, defs, {d: 'before' for d in defs}, only_illegal=(case['node'], case['form']))
        o, p = asm(src)
        ck = core.crashkind(o)
        if ck:
            return core.R(False, ck, 'crash/' + ck, '%s on %s' % (ck, src))
        if o.rc != 2 or p is not None:
            return core.R(False, 'illegal-accepted', 'tree/illegal-reference-accepted/' + case['form'].split('[')[-1].rstrip(']0123456789'),
                          'reference %s from node %d must be an error (tree %s, defs %s) but rc=%s' % (case['form'], case['node'], par, sorted(defs), o.rc))
        return core.R(True, 'illegal-rejected', states=['ill:%s:%s:%d:%s' % (par, sorted(defs), case['node'], case['form'])])
    src, refs, _ = tree_program(par, defs, dict(zip(case['defs'], case['pos'])))
    o, p = asm(src)
    ck = core.crashkind(o)
    if ck:
        return core.R(False, ck, 'crash/' + ck, '%s on %s' % (ck, src))
    if o.rc != 0 or p is None:
        return core.R(False, 'rejected', 'tree/rejected', 'rc=%s %s on tree %s defs %s' % (o.rc, (o.out + o.err)[-200:].decode('latin-1'), par, case))
    w = words(p)
    bad = []
    for rid, node, f, exp in refs:
        b = w.get(0x100 + rid * 4)
        got = struct.unpack('<H', b)[0] if b else None
        if got != exp:
            bad.append((node, f, exp, got))
    if bad:
        return core.R(False, 'resolution', 'tree/resolution/' + bad[0][1].split('[')[-1].rstrip(']0123456789'),
                      'tree %s defs %s pos %s: (node, form, model, asl) %s' % (par, case['defs'], case['pos'], bad[:4]))
    return core.R(True, 'tree-ok', nontrivial=bool(refs), states=['t:%s:%s' % (par, sorted(defs))])


# ---- (a2) PUBLIC / GLOBAL / FORWARD -------------------------------------------------------------

def export_cases(n):
    for k in range(1, n + 1):
        for par in trees(k):
            for node in range(1, k + 1):
                p = path(par, node)
                targets = [('', 0)] + [(':PARENT%d' % i, p[i]) for i in range(0, len(p))] + [(':S%d' % a, a) for a in p[:-1]]
                for kw in ('public', 'global'):
                    for tx, tnode in targets:
                        if kw == 'global' and tnode == node:
                            continue   # GLOBAL to the defining section itself would create the same name twice: not meaningful
                        for lst in ('single', 'qual-first', 'qual-last'):
                            for glob_def in (0, 1):
                                yield {'k': 'export', 'par': par, 'node': node, 'kw': kw, 'target': tx, 'tnode': tnode, 'list': lst, 'gdef': glob_def}
                for glob_def in (0, 1):
                    yield {'k': 'forward', 'par': par, 'node': node, 'gdef': glob_def}


def ev_export(case):
    par, node = case['par'], case['node']
    p = path(par, node)
    names = {i: 'S%d' % i for i in range(1, len(par))}
    if case['k'] == 'forward':
        # FORWARD sym in the section: a reference before the local definition must not see the global one
        lines = ['\tcpu 8086']
        if case['gdef']:
            lines.append('sym\tequ 16')

        def walkf(nd):
            for c in children(par, nd):
                lines.append('\tsection S%d' % c)
                if c == node:
                    lines.extend(['\tforward sym', '\torg 256', '\tdw sym', 'sym\tequ 99'])
                walkf(c)
                lines.append('\tendsection S%d' % c)
        walkf(0)
        o, pf = asm('\n'.join(lines) + '\n')
        ck = core.crashkind(o)
        if ck:
            return core.R(False, ck, 'crash/' + ck, '%s on %s' % (ck, lines))
        if o.rc != 0 or pf is None:
            return core.R(False, 'rejected', 'forward/rejected', 'rc=%s %s on %s' % (o.rc, (o.out + o.err)[-200:].decode('latin-1'), lines))
        got = struct.unpack('<H', words(pf)[256])[0]
        if got != 99:
            return core.R(False, 'forward', 'forward/value', 'FORWARD sym: reference reads %d, local definition is 99 on %s' % (got, lines))
        return core.R(True, 'forward-ok', states=['fw:%s:%d' % (par, node)])
    kw, tx, tnode = case['kw'], case['target'], case['tnode']
    # second symbol 'oth' exported with the opposite qualification in the same list
    othq = (':PARENT0' if kw == 'public' else ':PARENT1') if tx == '' else ''
    othnode = node if tx == '' else 0
    if case['list'] == 'single':
        stmt = ['\t%s sym%s' % (kw, tx)]
        has_oth = False
    elif case['list'] == 'qual-first':
        a, b = ('sym' + tx, 'oth' + othq) if tx else ('oth' + othq, 'sym' + tx)
        stmt = ['\t%s %s,%s' % (kw, a, b)]
        has_oth = True
    else:
        a, b = ('oth' + othq, 'sym' + tx) if tx else ('sym' + tx, 'oth' + othq)
        stmt = ['\t%s %s,%s' % (kw, a, b)]
        has_oth = True
    # model: where do 'sym' (value 77) and 'oth' (value 88) become visible?
    owner_sym = {}
    owner_oth = {}
    ext = {}
    if case['gdef'] and not (kw == 'public' and tnode == 0):
        owner_sym[0] = 16
    if kw == 'public':
        owner_sym[tnode] = 77
        owner_oth[othnode] = 88
    else:
        owner_sym[node] = 77
        owner_oth[node] = 88
        # composed name: names of the sections from below the target down to the source
        chain = []
        for a in p:
            if a == tnode:
                break
            chain.append(names[a])
        comp = '_'.join(list(reversed(chain)) + ['sym'])
        if chain:
            ext[comp] = (tnode, 77)
    if kw == 'public' and case['gdef'] and tnode == 0:
        return core.R(True, 'skip-double-def', nontrivial=False)
    lines = ['\tcpu 8086']
    if case['gdef'] and not (kw == 'public' and tnode == 0):
        lines.append('sym\tequ 16')
    refs = []
    rid = [0]

    def ref(expr, exp):
        lines.append('\torg %d' % (0x100 + rid[0] * 4))
        lines.append('\tdw %s' % expr)
        refs.append((rid[0], expr, exp))
        rid[0] += 1

    illegal = []

    defined = [False]
    anc = set(path(par, node))

    def emit(nd):
        for nm, owner in (('sym', owner_sym), ('oth', owner_oth) if has_oth else (None, None)):
            if nm is None:
                continue
            v = None
            for a in path(par, nd):
                if a in owner:
                    v = owner[a]
                    break
            if v is not None:
                ref(nm, v)
            else:
                illegal.append((nd, nm))
        for cname, (tn, v) in ext.items():
            if tn in path(par, nd):
                ref(cname, v)

    def walk(nd):
        if nd == node:
            lines.extend(stmt)
            lines.append('sym\tequ 77')
            if has_oth:
                lines.append('oth\tequ 88')
            defined[0] = True
        # With an outer definition visible, a reference placed before the local definition is the hazard the manual's
        # FORWARD section describes (pass 1 takes the outer symbol): references are placed after the definition point.
        pre = defined[0] or not case['gdef']
        if pre and nd not in anc - {node}:
            emit(nd)
        for c in children(par, nd):
            lines.append('\tsection S%d' % c)
            walk(c)
            lines.append('\tendsection S%d' % c)
        if nd in anc - {node}:
            emit(nd)
    walk(0)
    src = '\n'.join(lines) + '\n'
    o, pf = asm(src)
    ck = core.crashkind(o)
    d = '%s%s in S%d of tree %s (%s, global def %d)' % (kw, tx, node, par, case['list'], case['gdef'])
    if ck:
        return core.R(False, ck, 'crash/' + ck, '%s on %s' % (ck, d))
    if o.rc != 0 or pf is None:
        return core.R(False, 'rejected', 'export/rejected/%s/%s' % (kw, case['list']), 'rc=%s %s on %s\n%s' % (o.rc, (o.out + o.err)[-200:].decode('latin-1'), d, src))
    w = words(pf)
    bad = []
    for r, expr, exp in refs:
        b = w.get(0x100 + r * 4)
        got = struct.unpack('<H', b)[0] if b else None
        if got != exp:
            bad.append((expr, exp, got))
    if bad:
        return core.R(False, 'export-value', 'export/value/%s/%s' % (kw, case['list']), '%s: (expr, model, asl) %s\n%s' % (d, bad[:4], src))
    # one illegal reference: must be an error
    if illegal:
        nd, nm = illegal[0]
        lines2 = list(lines)
        # append an extra reference inside node nd: rebuild with a marker
        src2 = src_with_ref(par, lines, nd, nm)
        o2, p2 = asm(src2)
        if core.crashkind(o2):
            return core.R(False, 'crash', 'crash/export', 'crash on %s' % d, transitions=2)
        if o2.rc != 2:
            return core.R(False, 'export-leak', 'export/leak/%s/%s' % (kw, case['list']), '%s: reference to %s from node %d must be undefined but rc=%s\n%s' % (d, nm, nd, o2.rc, src2), transitions=2)
    return core.R(True, 'export-ok', states=['ex:%s:%d:%s%s:%s' % (par, node, kw, tx, case['list'])], transitions=2 if illegal else 1)


def src_with_ref(par, lines, nd, nm):
    """insert 'dw nm' at the start of node nd's body (global: at the top)"""
    out = []
    done = False
    if nd == 0:
        return '\n'.join(lines[:1] + ['\tdw %s' % nm] + lines[1:]) + '\n'
    for l in lines:
        out.append(l)
        if not done and l == '\tsection S%d' % nd:
            out.append('\tdw %s' % nm)
            done = True
    return '\n'.join(out) + '\n'


# ---- (b) temporary symbols ----------------------------------------------------------------------

TOPS = ['d+', 'd-', 'd/', 'dN', 'r-', 'r--', 'r---', 'r+', 'r++', 'r+++', 'd$', 'r$', 'd.', 'r.', 'rc']


def temp_render(seq, nform='label'):
    out = ['\tcpu 6502', '\torg $1000']
    fn = [i for i, op in enumerate(seq) if op == 'dN']
    firstn = fn[0] if fn else None
    for i, op in enumerate(seq):
        if op == 'd+':
            out.append('+\tnop')
        elif op == 'd-':
            out.append('-\tnop')
        elif op == 'd/':
            out.append('/\tnop')
        elif op == 'dN':
            # the non-temporary definition that opens a new scope for $$ and .name symbols: a label, or any other kind of definition
            out += {'label': ['lab%d:\tnop' % i], 'equ': ['lab%d\tequ *' % i, '\tnop'], 'set': ['lab%d\tset *' % i, '\tnop'],
                    'assign': ['lab%d\t= *' % i, '\tnop']}[nform]
        elif op == 'd$':
            out.append('$$t:\tnop')
        elif op == 'r$':
            out.append('\tadr $$t')
        elif op == 'd.':
            out.append('.t:\tnop')
        elif op == 'r.':
            out.append('\tadr .t')
        elif op == 'rc':
            out.append('\tadr lab%d.t' % (firstn if firstn is not None else 0))
        else:
            out.append('\tadr %s' % op[1:])
    return '\n'.join(out) + '\n'


def temp_model(seq):
    """list of expected values per reference (None = undefined -> error), or 'OOD'/'ERR' for the whole program"""
    pc = 0x1000
    addr = []
    for op in seq:
        addr.append(pc)
        pc += 1 if op[0] == 'd' else 2
    # epochs for $$: counter incremented by every non-temporary definition (dN)
    epoch = []
    e = 0
    lastn = []
    ln = None
    firstn = None
    for i, op in enumerate(seq):
        if op == 'dN':
            e += 1
            ln = i
            if firstn is None:
                firstn = i
        epoch.append(e)
        lastn.append(ln)
    res = []
    # double definitions
    dd = set()
    for i, op in enumerate(seq):
        if op == 'd$':
            k = ('$', epoch[i])
        elif op == 'd.':
            if lastn[i] is None:
                return 'OOD'
            k = ('.', lastn[i])
        else:
            continue
        if k in dd:
            return 'ERR'
        dd.add(k)
    for i, op in enumerate(seq):
        if op[0] != 'r':
            continue
        if op == 'r$':
            c = [addr[j] for j in range(len(seq)) if seq[j] == 'd$' and epoch[j] == epoch[i]]
            res.append(c[0] if c else None)
        elif op == 'r.':
            if lastn[i] is None:
                return 'OOD'
            c = [addr[j] for j in range(len(seq)) if seq[j] == 'd.' and lastn[j] == lastn[i]]
            res.append(c[0] if c else None)
        elif op == 'rc':
            if firstn is None:
                return 'OOD'
            c = [addr[j] for j in range(len(seq)) if seq[j] == 'd.' and lastn[j] == firstn]
            res.append(c[0] if c else None)
        else:
            n = len(op) - 1
            if op[1] == '-':
                c = [addr[j] for j in range(i - 1, -1, -1) if seq[j] in ('d-', 'd/')]
                if len(c) < n:
                    return 'OOD'   # backward reference without definition: not specified by the manual
            else:
                c = [addr[j] for j in range(i + 1, len(seq)) if seq[j] in ('d+', 'd/')]
            res.append(c[n - 1] if len(c) >= n else None)
    return res, addr


def temp_cases(n):
    for k in range(1, n + 1):
        for s in itertools.product(TOPS, repeat=k):
            if any(o[0] == 'r' for o in s):
                yield {'k': 'temp', 'seq': list(s)}
                if 'dN' in s and any(o in ('d$', 'r$', 'd.', 'r.', 'rc') for o in s) and k <= 4:
                    for nf in ('equ', 'set', 'assign'):
                        yield {'k': 'temp', 'seq': list(s), 'nform': nf}


def ev_temp(case):
    seq = case['seq']
    src = temp_render(seq, case.get('nform', 'label'))
    o, p = asm(src)
    ck = core.crashkind(o)
    d = ' '.join(seq) + (' (dN written as %s)' % case['nform'] if 'nform' in case else '')
    if ck:
        return core.R(False, ck, 'crash/' + ck, '%s on %s' % (ck, d))
    m = temp_model(seq)
    if m == 'OOD':
        return core.R(True, 'out-of-domain', nontrivial=False)
    if m == 'ERR':
        if o.rc != 2:
            return core.R(False, 'temp-double', 'temp/double-definition-accepted', 'double definition of a temporary accepted (rc=%s) on %s' % (o.rc, d))
        return core.R(True, 'temp-double-rejected')
    exp, addr = m
    if any(e is None for e in exp):
        if o.rc != 2:
            return core.R(False, 'temp-undef', 'temp/undefined-accepted/' + first_undef(seq, exp), 'reference without a documented neighbour accepted (rc=%s) on %s' % (o.rc, d))
        return core.R(True, 'temp-undef-rejected')
    if o.rc != 0 or p is None:
        return core.R(False, 'rejected', 'temp/rejected/' + '+'.join(sorted(set(x for x in seq if x[0] == 'r'))), 'rc=%s %s on %s' % (o.rc, (o.out + o.err)[-200:].decode('latin-1'), d))
    mem = {}
    for r in pfile.data_records(pfile.read(p)):
        for i, b in enumerate(r.data):
            mem[r.start + i] = b
    got = []
    for i, op in enumerate(seq):
        if op[0] == 'r':
            got.append(mem[addr[i]] | (mem[addr[i] + 1] << 8))
    if got != exp:
        k = [seq[i] for i in range(len(seq)) if seq[i][0] == 'r']
        badop = [k[j] for j in range(len(got)) if got[j] != exp[j]][0]
        return core.R(False, 'temp-binding', 'temp/binding/' + badop, 'references bind to %s, model %s on %s' % (['%x' % g for g in got], ['%x' % e for e in exp], d))
    return core.R(True, 'temp-ok', states=['tmp:' + d])


def first_undef(seq, exp):
    k = [o for o in seq if o[0] == 'r']
    for o, e in zip(k, exp):
        if e is None:
            return o
    return '?'


# ---- (b2) body-local labels against section symbols of the same name -------------------------------

def bodylocal_cases():
    """a label defined in a macro / REPT / IRP body is local to the expansion; a reference in the body binds to it, in front of
    and behind the definition, whichever enclosing section (none, the current one, its parent, its grandparent) or the global
    scope holds a symbol of the same name, at nesting depths 0..3"""
    for depth in (0, 1, 2, 3):
        for where in range(-1, depth + 1):          # -1: no outer symbol; 0: global; k: in the section at nesting level k
            for wrap in ('macro', 'rept', 'irp'):
                for refpos in ('before', 'after', 'both'):
                    yield {'k': 'bodylocal', 'depth': depth, 'where': where, 'wrap': wrap, 'ref': refpos}


def ev_bodylocal(case):
    l = ['\tcpu 6502', '\torg $1000']
    pc = 0x1000
    body = []
    if case['ref'] in ('before', 'both'):
        body.append('\tjmp skip')
    body += ['\tnop', 'skip:\tnop']
    if case['ref'] in ('after', 'both'):
        body.append('\tjmp skip')
    if case['wrap'] == 'macro':
        l += ['m\tmacro'] + body + ['\tendm']
    outer_addr = None
    if case['where'] == 0:
        l.append('skip:\tnop')
        outer_addr = pc
        pc += 1
    for lvl in range(1, case['depth'] + 1):
        l.append('\tsection s%d' % lvl)
        if case['where'] == lvl:
            l.append('skip:\tnop')
            outer_addr = pc
            pc += 1
    start = pc
    if case['wrap'] == 'macro':
        l.append('\tm')
    else:
        l += ['\trept 1' if case['wrap'] == 'rept' else '\tirp q,1'] + body + ['\tendm']
    n_before = 3 if case['ref'] in ('before', 'both') else 0
    local = start + n_before + 1
    want = []
    if case['ref'] in ('before', 'both'):
        want.append((start + 1, local))
    if case['ref'] in ('after', 'both'):
        want.append((local + 1 + 1, local))
    pc = local + 1 + (3 if case['ref'] in ('after', 'both') else 0)
    if outer_addr is not None:
        l.append('\tjmp skip')                       # outside the body: the outer symbol
        want.append((pc + 1, outer_addr))
        pc += 3
    for lvl in range(case['depth'], 0, -1):
        l.append('\tendsection s%d' % lvl)
    src = '\n'.join(l) + '\n'
    o, p = asm(src)
    d = ' / '.join(x.strip() for x in l[2:])
    ck = core.crashkind(o)
    if ck:
        return core.R(False, ck, 'crash/' + ck, '%s on %s' % (ck, d))
    if o.rc != 0 or p is None:
        return core.R(False, 'rejected', 'bodylocal/rejected', 'rc=%s %s on %s' % (o.rc, (o.out + o.err)[-200:].decode('latin-1'), d))
    mem = {}
    for r in pfile.data_records(pfile.read(p)):
        for i, b in enumerate(r.data):
            mem[r.start + i] = b
    for at, tgt in want:
        got = mem.get(at, 0) | (mem.get(at + 1, 0) << 8)
        if got != tgt:
            return core.R(False, 'bodylocal-binding', 'bodylocal/binding/%s' % ('outer-symbol-in-%s' % ('global' if case['where'] == 0 else 'section-level-%d-of-%d' % (case['where'], case['depth'])) if case['where'] >= 0 else 'no-outer-symbol'),
                          'the reference at %x goes to %x, model %x on %s' % (at - 1, got, tgt, d))
    return core.R(True, 'bodylocal-ok', states=['bl:%d:%d:%s' % (case['depth'], case['where'], case['ref'])])


# ---- (c) mutability -----------------------------------------------------------------------------

MOPS = ['x\tequ 1', 'x\tequ 2', 'x\tset 1', 'x\tset 2', 'x:', 'x\t= 1', 'x\t:= 2', 'x\tequ 1+0']


def mut_model(seq):
    kind = None
    val = None
    for op in seq:
        if op == 'x:':
            nk, nv = 'const', 'PC'
        elif 'equ' in op or '\t= ' in op:
            nk, nv = 'const', eval(op.split()[-1])
        else:
            nk, nv = 'var', int(op.split()[-1])
        if kind is None:
            kind, val = nk, nv
        elif kind == 'const' and nk == 'const':
            return 'ERR'
        elif kind != nk:
            return 'ERR'
        else:
            val = nv
    return val


def ev_mut(case):
    seq = case['seq']
    src = '\tcpu 8086\n\torg 16\n' + '\n'.join(seq) + '\n\torg 100h\n\tdw x\n'
    o, p = asm(src)
    ck = core.crashkind(o)
    d = ' / '.join(s.replace('\t', ' ') for s in seq)
    if ck:
        return core.R(False, ck, 'crash/' + ck, '%s on %s' % (ck, d))
    m = mut_model(seq)
    if m == 'ERR':
        if o.rc != 2:
            return core.R(False, 'mut-accepted', 'mut/redefinition-accepted', 'redefinition accepted (rc=%s) on %s' % (o.rc, d))
        return core.R(True, 'mut-rejected')
    if o.rc != 0 or p is None:
        return core.R(False, 'rejected', 'mut/rejected', 'rc=%s on %s' % (o.rc, d))
    got = struct.unpack('<H', words(p)[0x100])[0]
    want = 16 if m == 'PC' else m
    if got != want:
        return core.R(False, 'mut-value', 'mut/value', 'x reads %d, model %d on %s' % (got, want, d))
    return core.R(True, 'mut-ok', states=['mut:' + d])


# ---- (d) PUSHV / POPV ---------------------------------------------------------------------------

POPS = ['pushv alpha,x', 'popv alpha,x', 'pushv beta,x', 'popv beta,x', 'pushv ,x', 'popv ,x', 'set', 'pushv alpha,x,y', 'popv alpha,y,x']


SPOPS = ['pushv alpha,z', 'popv alpha,z', 'pushv ,z', 'popv ,z', 'setz', 'seti']


def ev_pushv_str(case):
    """the same with a symbol holding strings of changing length (and, in between, an integer): a stack keeps VALUES"""
    seq = case['seq']
    lines = ['\tcpu 8086', 'z\tset "first"']
    stacks = {}
    z = 'first'
    err = False
    probes = []
    for i, op in enumerate(seq):
        if op == 'setz':
            z = 'value number %d %s' % (i, 'x' * (3 * i))
            lines.append('z\tset "%s"' % z)
        elif op == 'seti':
            z = 40 + i
            lines.append('z\tset %d' % z)
        else:
            lines.append('\t' + op)
            kw, rest = op.split(' ')
            st = rest.split(',')[0]
            if kw == 'pushv':
                stacks.setdefault(st, []).append(z)
            else:
                if not stacks.get(st):
                    err = True
                    break
                z = stacks[st].pop()
                if not stacks[st]:
                    del stacks[st]
        lines += ['\torg %d' % (0x100 + 64 * i), '\tdb z,255']
        probes.append((0x100 + 64 * i, z))
    o, p = asm('\n'.join(lines) + '\n')
    ck = core.crashkind(o)
    d = ' / '.join(seq)
    if ck:
        return core.R(False, ck, 'crash/pushv-string/' + ck, '%s on %s' % (ck, d))
    if err:
        if o.rc != 2:
            return core.R(False, 'popv-empty', 'pushv/pop-from-empty-accepted', 'POPV from an empty stack accepted (rc=%s) on %s' % (o.rc, d))
        return core.R(True, 'popv-empty-rejected')
    if o.rc != 0 or p is None:
        return core.R(False, 'rejected', 'pushv/rejected', 'rc=%s %s on %s' % (o.rc, (o.out + o.err)[-200:].decode('latin-1'), d))
    w = words(p)
    for a, ez in probes:
        want = (ez.encode() if isinstance(ez, str) else bytes([ez])) + b'\xff'
        if w.get(a) != want:
            return core.R(False, 'pushv-value', 'pushv/string-value', 'after step at %x z = %r, model %r on %s' % (a, w.get(a), want, d))
    return core.R(True, 'pushv-ok', states=['pvs:' + d])


def ev_pushv(case):
    seq = case['seq']
    lines = ['\tcpu 8086', 'x\tset 1000', 'y\tset 2000']
    stacks = {}
    x, y = 1000, 2000
    err = False
    probes = []
    for i, op in enumerate(seq):
        if op == 'set':
            x = 100 + i
            y = 200 + i
            lines += ['x\tset %d' % x, 'y\tset %d' % y]
        else:
            lines.append('\t' + op)
            kw, rest = op.split(' ')
            parts = rest.split(',')
            st, vs = parts[0], parts[1:]
            if kw == 'pushv':
                for v in vs:
                    stacks.setdefault(st, []).append(x if v == 'x' else y)
                if case.get('autoset'):        # every saved value is a different one
                    x = 100 + i
                    y = 200 + i
                    lines += ['x\tset %d' % x, 'y\tset %d' % y]
            else:
                for v in vs:
                    if not stacks.get(st):
                        err = True
                        break
                    val = stacks[st].pop()
                    if not stacks[st]:
                        del stacks[st]
                    if v == 'x':
                        x = val
                    else:
                        y = val
        if err:
            break
        lines += ['\torg %d' % (0x100 + 8 * i), '\tdw x,y']
        probes.append((0x100 + 8 * i, x, y))
    o, p = asm('\n'.join(lines) + '\n')
    ck = core.crashkind(o)
    d = ' / '.join(seq)
    if ck:
        return core.R(False, ck, 'crash/' + ck, '%s on %s' % (ck, d))
    if err:
        if o.rc != 2:
            return core.R(False, 'popv-empty', 'pushv/pop-from-empty-accepted', 'POPV from an empty stack accepted (rc=%s) on %s' % (o.rc, d))
        return core.R(True, 'popv-empty-rejected')
    if o.rc != 0 or p is None:
        return core.R(False, 'rejected', 'pushv/rejected', 'rc=%s %s on %s' % (o.rc, (o.out + o.err)[-200:].decode('latin-1'), d))
    w = words(p)
    for a, ex, ey in probes:
        got = struct.unpack('<HH', w[a])
        if got != (ex, ey):
            return core.R(False, 'pushv-value', 'pushv/value', 'after step at %x x,y = %s, model %s on %s' % (a, got, (ex, ey), d))
    return core.R(True, 'pushv-ok', states=['pv:' + d])


# ---- (e) case sensitivity -----------------------------------------------------------------------

def case_cases():
    names = ['sym', 'Sym', 'SYM']
    for dn in names:
        for rn in names:
            for u in (0, 1):
                for kind in ('equ', 'label', 'set', 'section', 'cmdline-D-first', 'cmdline-U-first'):
                    yield {'k': 'case', 'def': dn, 'ref': rn, 'U': u, 'kind': kind}


def ev_case(case):
    dn, rn, u, kind = case['def'], case['ref'], case['U'], case['kind']
    same = (dn == rn) or not u
    if kind == 'equ':
        src = '\tcpu 8086\n%s\tequ 5\n\torg 100h\n\tdw %s\n' % (dn, rn)
    elif kind == 'set':
        src = '\tcpu 8086\n%s\tset 4\n%s\tset 5\n\torg 100h\n\tdw %s\n' % (dn, dn, rn)
    elif kind == 'label':
        src = '\tcpu 8086\n\torg 5\n%s:\n\torg 100h\n\tdw %s\n' % (dn, rn)
    else:
        # section name in the qualifier: defined as section dn, referenced as x[rn]
        src = '\tcpu 8086\n\tsection %s\nx\tequ 5\n\torg 100h\n\tdw x[%s]\n\tendsection\n' % (dn, rn)
    opts = ['-U'] if u else []
    if kind.startswith('cmdline'):
        # the symbol comes from the command line: it is the same symbol wherever -U stands among the options
        src = '\tcpu 8086\n\torg 100h\n\tdw %s\n' % rn
        opts = (['-D', dn + '=5'] + opts) if kind == 'cmdline-D-first' else (opts + ['-D', dn + '=5'])
    o, p = asm(src, opts)
    ck = core.crashkind(o)
    d = '%s def %s ref %s %s' % (kind, dn, rn, ' '.join(opts))
    if ck:
        return core.R(False, ck, 'crash/' + ck, '%s on %s' % (ck, d))
    if same:
        if o.rc != 0 or p is None or struct.unpack('<H', words(p)[0x100])[0] != 5:
            return core.R(False, 'case', 'case/same-name-not-found/' + kind, 'names must denote the same symbol: rc=%s on %s' % (o.rc, d))
        return core.R(True, 'case-same', states=['case:' + d])
    if o.rc != 2:
        return core.R(False, 'case', 'case/different-name-found/' + kind, 'with -U the names differ, reference must be undefined: rc=%s on %s' % (o.rc, d))
    return core.R(True, 'case-distinct', states=['case:' + d])


# ---- driver glue --------------------------------------------------------------------------------

def subspaces(tier):
    q = tier == 'quick'
    subs = []
    subs.append(('a:section-trees<=%d' % (3 if q else 4), tree_cases(3 if q else 4, 2 if q else 3)))
    subs.append(('a2:public-global-forward', export_cases(3 if q else 4)))
    subs.append(('b:temporary-symbols<=%d' % (4 if q else 5), temp_cases(4 if q else 5)))
    subs.append(('b2:body-local-labels-vs-section-symbols', list(bodylocal_cases())))
    nm = 3 if q else 4
    subs.append(('c:mutability<=%d' % nm, [{'k': 'mut', 'seq': list(s)} for k in range(1, nm + 1) for s in itertools.product(MOPS, repeat=k)]))
    npv = 4 if q else 5
    subs.append(('d:pushv-popv<=%d' % npv, ({'k': 'pv', 'seq': list(s)} for k in range(1, npv + 1) for s in itertools.product(POPS, repeat=k))))
    # three and four named stacks alive at once (the list of stacks is kept sorted by name; one running empty is unlinked from
    # the middle or the end of it): every sequence of pushes and pops over three stacks, every order of filling and emptying four
    OPS3 = ['%s s%s,x' % (kw, n) for n in 'abc' for kw in ('pushv', 'popv')]
    subs.append(('d:pushv-popv-three-stacks<=%d' % (npv + 1), ({'k': 'pv', 'seq': list(s), 'autoset': 1} for k in range(3, npv + 2) for s in itertools.product(OPS3, repeat=k))))
    subs.append(('d:pushv-popv-four-stacks-orders', ({'k': 'pv', 'seq': ['pushv s%s,x' % n for n in a] + ['popv s%s,x' % n for n in b], 'autoset': 1}
                                                      for a in itertools.permutations('abcd') for b in itertools.permutations('abcd'))))
    subs.append(('d:pushv-popv-strings<=%d' % npv, ({'k': 'pvs', 'seq': list(s)} for k in range(1, npv + 1) for s in itertools.product(SPOPS, repeat=k))))
    subs.append(('e:case-sensitivity', list(case_cases())))
    return subs


def describe(case):
    return case


def evaluate(case):
    k = case['k']
    if k == 'bodylocal':
        return ev_bodylocal(case)
    if k in ('tree', 'treeill'):
        return ev_tree(case)
    if k in ('export', 'forward'):
        return ev_export(case)
    if k == 'temp':
        return ev_temp(case)
    if k == 'mut':
        return ev_mut(case)
    if k == 'pv':
        return ev_pushv(case)
    if case['k'] == 'pvs':
        return ev_pushv_str(case)
    return ev_case(case)
