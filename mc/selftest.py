"""Offline self-test of the framework parts that do not depend on /repo."""
import sys


def main():
    from .fmt import pfile
    n = 0
    for short in (False, True):
        for start in (0, 1, 0xffff, 0x12345678):
            for data in (b'', b'\x01', bytes(range(256)) * 2):
                recs = [dict(kind='data', cpu=0x41, seg=1, gran=1, start=start, data=data, short=short), dict(kind='entry', entry=start)]
                b = pfile.write(recs)
                r = pfile.read(b)
                assert r[0].key() == ('data', 0x41, 1, 1, start, data), r
                assert r[1].key() == ('entry', start)
                assert r[2].kind == 'creator'
                for cut in range(2, len(b) - 6):
                    pfile.classify(b[:cut])
                n += 1
    assert pfile.classify(b'\x00\x00') == 'bad magic'
    try:
        from .fmt import hexfmt
        hexfmt.selftest()
    except ImportError:
        pass
    try:
        from .fmt import ieee
        ieee.selftest()
    except ImportError:
        pass
    print('selftest ok (%d pfile round trips)' % n)
    return 0
