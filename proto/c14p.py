import os, subprocess, sys, tempfile, shutil, collections, struct, re
sys.path.insert(0,'/tmp/w/s')
from pdump import parse
ASL='/repo/_build/asl'
# NMOS 6502 documented opcodes: mnemonic -> {mode: opcode}
T={
'ADC':{'imm':0x69,'zp':0x65,'zpx':0x75,'abs':0x6D,'absx':0x7D,'absy':0x79,'indx':0x61,'indy':0x71},
'AND':{'imm':0x29,'zp':0x25,'zpx':0x35,'abs':0x2D,'absx':0x3D,'absy':0x39,'indx':0x21,'indy':0x31},
'ASL':{'acc':0x0A,'zp':0x06,'zpx':0x16,'abs':0x0E,'absx':0x1E},
'BCC':{'rel':0x90},'BCS':{'rel':0xB0},'BEQ':{'rel':0xF0},'BMI':{'rel':0x30},'BNE':{'rel':0xD0},'BPL':{'rel':0x10},'BVC':{'rel':0x50},'BVS':{'rel':0x70},
'BIT':{'zp':0x24,'abs':0x2C},'BRK':{'imp':0x00},
'CLC':{'imp':0x18},'CLD':{'imp':0xD8},'CLI':{'imp':0x58},'CLV':{'imp':0xB8},
'CMP':{'imm':0xC9,'zp':0xC5,'zpx':0xD5,'abs':0xCD,'absx':0xDD,'absy':0xD9,'indx':0xC1,'indy':0xD1},
'CPX':{'imm':0xE0,'zp':0xE4,'abs':0xEC},'CPY':{'imm':0xC0,'zp':0xC4,'abs':0xCC},
'DEC':{'zp':0xC6,'zpx':0xD6,'abs':0xCE,'absx':0xDE},'DEX':{'imp':0xCA},'DEY':{'imp':0x88},
'EOR':{'imm':0x49,'zp':0x45,'zpx':0x55,'abs':0x4D,'absx':0x5D,'absy':0x59,'indx':0x41,'indy':0x51},
'INC':{'zp':0xE6,'zpx':0xF6,'abs':0xEE,'absx':0xFE},'INX':{'imp':0xE8},'INY':{'imp':0xC8},
'JMP':{'abs':0x4C,'ind':0x6C},'JSR':{'abs':0x20},
'LDA':{'imm':0xA9,'zp':0xA5,'zpx':0xB5,'abs':0xAD,'absx':0xBD,'absy':0xB9,'indx':0xA1,'indy':0xB1},
'LDX':{'imm':0xA2,'zp':0xA6,'zpy':0xB6,'abs':0xAE,'absy':0xBE},
'LDY':{'imm':0xA0,'zp':0xA4,'zpx':0xB4,'abs':0xAC,'absx':0xBC},
'LSR':{'acc':0x4A,'zp':0x46,'zpx':0x56,'abs':0x4E,'absx':0x5E},'NOP':{'imp':0xEA},
'ORA':{'imm':0x09,'zp':0x05,'zpx':0x15,'abs':0x0D,'absx':0x1D,'absy':0x19,'indx':0x01,'indy':0x11},
'PHA':{'imp':0x48},'PHP':{'imp':0x08},'PLA':{'imp':0x68},'PLP':{'imp':0x28},
'ROL':{'acc':0x2A,'zp':0x26,'zpx':0x36,'abs':0x2E,'absx':0x3E},'ROR':{'acc':0x6A,'zp':0x66,'zpx':0x76,'abs':0x6E,'absx':0x7E},
'RTI':{'imp':0x40},'RTS':{'imp':0x60},
'SBC':{'imm':0xE9,'zp':0xE5,'zpx':0xF5,'abs':0xED,'absx':0xFD,'absy':0xF9,'indx':0xE1,'indy':0xF1},
'SEC':{'imp':0x38},'SED':{'imp':0xF8},'SEI':{'imp':0x78},
'STA':{'zp':0x85,'zpx':0x95,'abs':0x8D,'absx':0x9D,'absy':0x99,'indx':0x81,'indy':0x91},
'STX':{'zp':0x86,'zpy':0x96,'abs':0x8E},'STY':{'zp':0x84,'zpx':0x94,'abs':0x8C},
'TAX':{'imp':0xAA},'TAY':{'imp':0xA8},'TSX':{'imp':0xBA},'TXA':{'imp':0x8A},'TXS':{'imp':0x9A},'TYA':{'imp':0x98},
}
assert sum(len(v) for v in T.values())==151
def forms():
    for mn,modes in T.items():
        for md,op in modes.items():
            if md=='imp': yield mn,md,'%s'%mn.lower(),bytes([op])
            elif md=='acc':
                yield mn,md,'%s a'%mn.lower(),bytes([op])
            elif md=='imm':
                for v in (0,1,0x7f,0x80,0xff): yield mn,md,'%s #%d'%(mn.lower(),v),bytes([op,v])
                for v in (256,-129): yield mn,md,'%s #%d'%(mn.lower(),v),None
                yield mn,md,'%s #-1'%mn.lower(),bytes([op,0xff])
            elif md in('zp','zpx','zpy','indx','indy'):
                for v in (0,1,0xff):
                    txt={'zp':'$%02x','zpx':'$%02x,x','zpy':'$%02x,y','indx':'($%02x,x)','indy':'($%02x),y'}[md]%v
                    yield mn,md,'%s %s'%(mn.lower(),txt),bytes([op,v])
                if md in('indx','indy'):
                    txt={'indx':'($100,x)','indy':'($100),y'}[md]
                    yield mn,md,'%s %s'%(mn.lower(),txt),None
            elif md in('abs','absx','absy','ind'):
                for v in (0x100,0x1234,0xfffe):
                    txt={'abs':'$%04x','absx':'$%04x,x','absy':'$%04x,y','ind':'($%04x)'}[md]%v
                    yield mn,md,'%s %s'%(mn.lower(),txt),bytes([op,v&0xff,v>>8])
                txt={'abs':'$10000','absx':'$10000,x','absy':'$10000,y','ind':'($10000)'}[md]
                yield mn,md,'%s %s'%(mn.lower(),txt),None
                # abs with zp-range operand where no zp form exists -> must use abs
                zpalt={'abs':'zp','absx':'zpx','absy':'zpy'}.get(md)
                if zpalt and zpalt not in modes:
                    txt={'abs':'$12','absx':'$12,x','absy':'$12,y'}[md]
                    yield mn,md,'%s %s'%(mn.lower(),txt),bytes([op,0x12,0])
            elif md=='rel':
                for dist in (-128,-127,-2,0,1,127):
                    yield mn,md,'%s *+2+(%d)'%(mn.lower(),dist),bytes([op,dist&0xff])
                for dist in (-129,128):
                    yield mn,md,'%s *+2+(%d)'%(mn.lower(),dist),None
cases=list(forms()); print(len(cases),'forms')
ok=[c for c in cases if c[3] is not None]; er=[c for c in cases if c[3] is None]
def batch(cs):
    d=tempfile.mkdtemp(dir='/dev/shm')
    src=['\tcpu 6502']
    for k,c in enumerate(cs): src+=['\torg $%x'%(0x1000+k*16),'\t'+c[2]]
    open(d+'/a.asm','w').write('\n'.join(src)+'\n')
    r=subprocess.run([ASL,'-q','a.asm'],cwd=d,capture_output=True,env={'LC_ALL':'C'})
    p=open(d+'/a.p','rb').read() if os.path.exists(d+'/a.p') else None
    shutil.rmtree(d); return r.returncode,r.stderr.decode(),p
rc,err,p=batch(ok)
bad=[]
if rc!=0:
    print('ok-batch failed:',err[:600])
else:
    recs={x[5]:x[7] for x in parse(p) if x[0]=='data'}
    for k,c in enumerate(ok):
        got=recs.get(0x1000+k*16)
        if got!=c[3]: bad.append((c[2],c[3].hex(),got.hex() if got else None))
rc,err,p=batch(er)
lines=set(int(m.group(1)) for m in re.finditer(r'a\.asm\((\d+)\)',err))
for k,c in enumerate(er):
    if 3+2*k not in lines: bad.append((c[2],'ERR','accepted'))
print(len(bad),'disagreements'); 
for b in bad[:30]: print(b)
