import itertools, os, subprocess, sys, tempfile, shutil, collections, re
from multiprocessing import Pool
B='/repo/_build/'
CPU=sys.argv[1]
base=tempfile.mkdtemp(dir='/dev/shm')
def asm_img(d,text,name):
    open(d+'/%s.asm'%name,'w').write('\tcpu %s\n'%CPU+text)
    for f in (name+'.p',name+'.bin'):
        if os.path.exists(d+'/'+f): os.unlink(d+'/'+f)
    r=subprocess.run([B+'asl','-q',name+'.asm'],cwd=d,capture_output=True,env={'LC_ALL':'C'},timeout=10)
    if r.returncode!=0: return None,r.stderr.decode()[:100]
    r=subprocess.run([B+'p2bin','-q',name+'.p',name+'.bin','-r','0x100-0x102','-l','0'],cwd=d,capture_output=True,env={'LC_ALL':'C'},timeout=10)
    if r.returncode!=0: return None,'p2bin '+r.stderr.decode()[:80]
    return open(d+'/'+name+'.bin','rb').read(),''
def das(d,img,name):
    open(d+'/%s.img'%name,'wb').write(img)
    r=subprocess.run([B+'dasl','-cpu',CPU,'-binfile','%s.img@0x100'%name,'-entryaddress','0x100'],cwd=d,capture_output=True,env={'LC_ALL':'C'},timeout=10)
    return r.returncode,r.stdout.decode(),r.stderr.decode()
def areas(txt):
    return re.findall(r';\s*([0-9A-Fa-f]+)(?:\.\.\.([0-9A-Fa-f]+))?\s*\((code|data)\)',txt)
def run(x):
    d=os.path.join(base,str(os.getpid())); os.makedirs(d,exist_ok=True)
    img=bytes(x)
    rc,T,err=das(d,img,'x')
    if rc<0: return x,'DASL-SIGNAL %d'%rc
    if rc!=0: return x,'dasl rc%d'%rc
    Y,e=asm_img(d,T,'y')
    if Y is None: return x,'X-not-reassemblable: '+e.split('error:')[-1].strip()[:40]
    # property applies to Y: round trip must be exact on disassembled area
    rc,T2,err=das(d,Y,'y2')
    if rc!=0: return x,'dasl(Y) rc%d'%rc
    Z,e=asm_img(d,T2,'z')
    if Z is None: return x,'VIOL Y-not-reassemblable: %s | %s'%(e.split('error:')[-1].strip()[:40], Y.hex())
    ar=areas(T2)
    # compare over code areas
    for a,b_,kind in ar:
        lo=int(a,16); hi=int(b_,16) if b_ else lo
        for ad in range(lo,hi+1):
            if 0x100<=ad<=0x102 and Y[ad-0x100]!=Z[ad-0x100]: return x,'VIOL bytes differ Y=%s Z=%s'%(Y.hex(),Z.hex())
    return x,'ok' if Y==img else 'ok(Y!=X)'
if __name__=='__main__':
    imgs=[(a,b,c) for a in range(256) for b in (0,1,0x7f,0x80,0xfe,0xff) for c in (0,0x80,0xff)]
    print(len(imgs),'images')
    with Pool(16) as p: rs=p.map(run,imgs,chunksize=20)
    c=collections.Counter(r.split(':')[0].split(' Y=')[0][:40] for _,r in rs); print(c.most_common(12))
    sh=collections.Counter()
    for x,r in rs:
        k=r[:25]
        if not r.startswith('ok') and sh[k]<4: sh[k]+=1; print(bytes(x).hex(),r[:150])
    shutil.rmtree(base)
