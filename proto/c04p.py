import itertools, os, subprocess, sys, tempfile, shutil, collections, struct
from multiprocessing import Pool
sys.path.insert(0,'/tmp/w/s')
from pdump import parse
ASL='/repo/_build/asl'
B=[1,2,3,255,256,257,510,511,512,513,514,1024]
SEPS=['none','res1','org','cpu']
def render_and_model(ns,seps):
    out=['\tcpu 68000','\tpadding off','\torg $100']; pc=0x100; mem={}; ctr=[0]
    cpu=1
    def emit(n):
        nonlocal pc
        vals=[]
        for i in range(n):
            ctr[0]=(ctr[0]*7+13)%251; vals.append(ctr[0])
        # split into lines of <=20 args? use one dc.b with many args is limited (20 params) -> use multiple lines of 16
        for i in range(0,n,16):
            out.append('\tdc.b '+','.join(str(v) for v in vals[i:i+16]))
        for v in vals:
            mem[pc]=(v,cpu); pc+=1
    for i,n in enumerate(ns):
        emit(n)
        if i<len(seps):
            s=seps[i]
            if s=='res1': out.append('\tds.b 1'); pc+=1
            elif s=='org': out.append('\torg *+16'); pc+=16
            elif s=='cpu':
                cpu=0x62 if cpu==1 else 1
                out.append('\tcpu '+('6805' if cpu==0x62 else '68000'))
                if cpu==1: out.append('\tpadding off')
    return '\n'.join(out)+'\n',mem
base=tempfile.mkdtemp(dir='/dev/shm')
def run(case):
    ns,seps=case
    src,mem=render_and_model(ns,seps)
    d=os.path.join(base,str(os.getpid())); os.makedirs(d,exist_ok=True)
    if os.path.exists(d+'/a.p'): os.unlink(d+'/a.p')
    open(d+'/a.asm','w').write(src)
    r=subprocess.run([ASL,'-q','a.asm'],cwd=d,capture_output=True,timeout=10,env={'LC_ALL':'C'})
    if r.returncode!=0: return case,'rc%d %s'%(r.returncode,r.stderr.decode().split('\n')[0][-60:])
    try: recs=parse(open(d+'/a.p','rb').read())
    except Exception as e: return case,'PARSE %r'%e
    got={}
    for x in recs:
        if x[0]!='data': continue
        for i,b in enumerate(x[7]):
            a=x[5]+i
            if a in got: return case,'DUP addr %x'%a
            got[a]=(b,x[2])
    if got!=mem:
        diff=[a for a in sorted(set(got)|set(mem)) if got.get(a)!=mem.get(a)][:5]
        return case,'MEM diff at %s'%[(hex(a),got.get(a),mem.get(a)) for a in diff]
    return case,'ok'
if __name__=='__main__':
    Bq=[1,511,512,513] if sys.argv[1]=='q' else B
    cases=[((a,b,c),(s1,s2)) for a in Bq for b in Bq for c in Bq for s1 in SEPS for s2 in SEPS]
    print(len(cases),'cases')
    with Pool(16) as p: rs=p.map(run,cases,chunksize=20)
    c=collections.Counter(r[:30] for _,r in rs); print(c.most_common(10))
    sh=0
    for cs,r in rs:
        if r!='ok' and sh<8: sh+=1; print(cs,r[:200])
    shutil.rmtree(base)
