import os, subprocess, sys, tempfile, shutil, collections, hashlib
from multiprocessing import Pool
ASL='/repo/_build/asl'; T='/repo/tests'
tests=sorted(t for t in os.listdir(T) if os.path.exists(os.path.join(T,t,t+'.asm')))
def flags(t):
    p=os.path.join(T,t,'asflags'); return open(p).readline().split() if os.path.exists(p) else []
F={
 'f_macro':'\tcpu 6502\nm\tmacro x\n\tnop\n',
 'f_if':'\tcpu 6502\n\tif 1\n\tnop\n',
 'f_if0':'\tcpu 6502\n\tif 0\n\tnop\n',
 'f_switch':'\tcpu 6502\n\tswitch 1\n\tcase 2\n\tnop\n',
 'f_section':'\tcpu 6502\n\tsection foo\n\tnop\n',
 'f_struct':'\tcpu 6502\nrec\tstruct\nf1\trmb 1\n',
 'f_save':'\tcpu 6502\n\tsave\n\tnop\n',
 'f_rept':'\tcpu 6502\n\trept 3\n\tnop\n',
 'f_phase':'\tcpu 6502\n\tphase $8000\n\tnop\n\tfoo\n',
 'f_charset':"\tcpu 6502\n\tcharset 'a','z','A'\n\tfoo\n",
 'f_relaxed':'\tcpu 6502\n\trelaxed on\n\tfoo\n',
 'f_intsyntax':'\tcpu 6502\n\tintsyntax +0x,-$hex\n\tfoo\n',
 'f_padding':'\tcpu 68000\n\tpadding off\n\tsupmode on\n\tfpu on\n\tfoo\n',
 'f_assume':'\tcpu 6809\n\tassume dpr:$12\n\tfoo\n',
 'f_radix':'\tcpu 6502\n\tradix 16\n\toutradix 8\n\tfoo\n',
 'f_expect':'\tcpu 6502\n\texpect 10\n\tnop\n',
 'f_listing':'\tcpu 6502\n\tlisting off\n\tmacexp_dft noif\n\tfoo\n',
 'f_dotted':'\tcpu 6502\n\tdottedstructs on\n\tfoo\n',
 'f_function':'\tcpu 6502\nsq\tfunction x,x*x\n\tfoo\n',
 'f_enum':'\tcpu 6502\n\tenumconf 4,code\n\tenum a,b\n\tfoo\n',
 'f_org':'\tcpu 8051\n\tsegment data\n\torg 40h\n\tfoo\n',
 'f_nestmax':'\tcpu 6502\n\tnestmax 2\n\tfoo\n',
}
base=tempfile.mkdtemp(dir='/dev/shm')
def prep(d,t):
    for f in os.listdir(os.path.join(T,t)):
        if not f.endswith('.ori') and f!='asflags' and not f.endswith('.doc'): shutil.copy(os.path.join(T,t,f),d)
def solo(t):
    d=tempfile.mkdtemp(dir=base); prep(d,t)
    r=subprocess.run([ASL,'-q','-i','/repo/include',t+'.asm'],cwd=d,capture_output=True,env={'LC_ALL':'C'})
    h=hashlib.sha1(open(d+'/'+t+'.p','rb').read()).hexdigest() if os.path.exists(d+'/'+t+'.p') else None
    shutil.rmtree(d); return t,(r.returncode,h)
def pair(ab):
    a,b=ab
    d=tempfile.mkdtemp(dir=base); prep(d,b); open(d+'/'+a+'.asm','w').write(F[a])
    r=subprocess.run([ASL,'-q','-i','/repo/include',a+'.asm',b+'.asm'],cwd=d,capture_output=True,env={'LC_ALL':'C'},timeout=60)
    h=hashlib.sha1(open(d+'/'+b+'.p','rb').read()).hexdigest() if os.path.exists(d+'/'+b+'.p') else None
    err=[l for l in r.stderr.decode().split('\n') if l.startswith('> > > '+b)][:2]
    shutil.rmtree(d); return ab,(r.returncode,h,err)
if __name__=='__main__':
    noflag=[t for t in tests if not flags(t)]
    with Pool(16) as p:
        S=dict(p.map(solo,noflag))
        pairs=[(a,b) for a in F for b in noflag]
        print(len(pairs),'pairs')
        rs=p.map(pair,pairs,chunksize=10)
    bad=[(ab,r) for ab,r in rs if r[1]!=S[ab[1]][1] or r[0]!=2]
    print(len(bad),'bad')
    c=collections.Counter(ab[0] for ab,_ in bad); print(c.most_common())
    sh=collections.Counter()
    for ab,r in bad:
        if sh[ab[0]]<3: sh[ab[0]]+=1; print(ab,r[0],r[2])
    shutil.rmtree(base)
